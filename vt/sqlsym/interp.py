"""Symbolic/concrete interpreter for the parsed MySQL subset over bounded key spaces.

One code path, two modes: every SQL value is a pair V(v, n) where v is a Python int or a z3 Int term and
n (the NULL flag) is a Python bool or a z3 Bool term.  With only Python values inside the tables and
arguments the interpreter is a small concrete MySQL emulator (used for replay); with z3 terms it builds
the symbolic successor state.  There is no path forking inside SQL: writes are `ite(guard, new, old)`.

Semantics pinned here are listed in DESIGN.md §3.1 (S1–S8).
"""
import itertools
import os
import re

import z3

from ..common import REPO, HarnessError
from . import catalog, parse

# ---- Python/z3 mixed helpers ----------------------------------------------------------------------


def is_sym(x):
    return isinstance(x, z3.ExprRef)


def b_not(a):
    if isinstance(a, bool):
        return not a
    return z3.Not(a)


def b_and(*xs):
    out = []
    for x in xs:
        if isinstance(x, bool):
            if not x:
                return False
        else:
            out.append(x)
    if not out:
        return True
    return out[0] if len(out) == 1 else z3.And(*out)


def b_or(*xs):
    out = []
    for x in xs:
        if isinstance(x, bool):
            if x:
                return True
        else:
            out.append(x)
    if not out:
        return False
    return out[0] if len(out) == 1 else z3.Or(*out)


def ite(c, a, b):
    if isinstance(c, bool):
        return a if c else b
    if a is b:
        return a
    if not is_sym(a) and not is_sym(b):
        if a == b and type(a) is type(b):
            return a
        if isinstance(a, bool):
            return z3.If(c, z3.BoolVal(a), z3.BoolVal(b))
        return z3.If(c, z3.IntVal(a), z3.IntVal(b))
    if is_sym(a) and is_sym(b) and a.eq(b):
        return a
    if isinstance(a, bool):
        a = z3.BoolVal(a)
    if isinstance(b, bool):
        b = z3.BoolVal(b)
    return z3.If(c, a, b)


def i_eq(a, b):
    if not is_sym(a) and not is_sym(b):
        return a == b
    return a == b


class V:
    """SQL scalar: integer payload + NULL flag (strings/enums are interned to ints, booleans are 0/1)."""
    __slots__ = ('v', 'n')

    def __init__(self, v, n=False):
        self.v = v
        self.n = n

    def __repr__(self):
        return f'V({self.v},{self.n})'


NULL = V(0, True)


def v_ite(c, a, b):
    if isinstance(c, bool):
        return a if c else b
    if a is b:
        return a
    return V(ite(c, a.v, b.v), ite(c, a.n, b.n))


def truth(x):
    """WHERE/IF semantics: NULL is false."""
    if isinstance(x.v, bool):
        x = V(1 if x.v else 0, x.n)
    nz = (x.v != 0) if not is_sym(x.v) else (x.v != 0)
    return b_and(b_not(x.n), nz)


def from_bool(b, n=False):
    if isinstance(b, bool):
        return V(1 if b else 0, n)
    return V(z3.If(b, z3.IntVal(1), z3.IntVal(0)), n)


class Interner:
    """Strings <-> ints.  Codes are dense and stable for the literals registered up front."""

    def __init__(self):
        self.s2i = {}
        self.i2s = {}

    def code(self, s):
        if s not in self.s2i:
            c = 10**12 + len(self.s2i)
            self.s2i[s] = c
            self.i2s[c] = s
        return self.s2i[s]

    def name(self, c):
        return self.i2s.get(c, c)


GLOBAL_S = Interner()
# Collation (opt-in per check): column name -> qualifiers (table names / None) whose `=` / `!=` comparisons use MySQL's default
# case-insensitive collation; every other string comparison is exact (interned codes).
CI_COLUMNS = {}


def ci_fold(x):
    """Case fold of an interned string code (identity on non-strings); symbolic codes: ite chain over the interned strings."""
    S_ = GLOBAL_S
    if not is_sym(x):
        nm = S_.i2s.get(x)
        return S_.code(nm.lower()) if isinstance(nm, str) and nm.lower() != nm else x
    out = x
    for c, nm in list(S_.i2s.items()):
        if isinstance(nm, str) and nm.lower() != nm:
            out = z3.If(x == c, S_.code(nm.lower()), out)
    return out


# fixed registration order => codes are identical in every process (replay files carry them)
for _s in (['Pending', 'Ready', 'Creating', 'Running', 'Success', 'Failed', 'Error', 'Cancelled', 'pending', 'active',
            'inactive', 'deleted', 'open', 'running', 'complete', 'activation_timeout', 'cancelled', 'deactivated', 'error',
            'preempted', 'failed', 'success', 'ended', 'user1', 'bp1', 'tokA', 'tokB', 'tokC']
           + [f'inst{i}' for i in range(1, 9)] + [f'att{i}' for i in range(1, 9)] + [f'ic{i}' for i in range(1, 5)]):
    GLOBAL_S.code(_s)


# ---- tables -----------------------------------------------------------------------------------------


class Row:
    __slots__ = ('key', 'present', 'vals')

    def __init__(self, key, present, vals):
        self.key = key
        self.present = present
        self.vals = vals


class Table:
    def __init__(self, name, keycols, domains, cols, ignored=()):
        self.name = name
        self.keycols = list(keycols)
        self.domains = [list(d) for d in domains]
        self.cols = list(cols)  # modelled non-key columns
        self.ignored = set(ignored)
        self.rows = {}
        for key in itertools.product(*self.domains):
            self.rows[key] = Row(key, False, {c: NULL for c in self.cols})

    def copy(self):
        t = Table.__new__(Table)
        t.name, t.keycols, t.domains, t.cols, t.ignored = self.name, self.keycols, self.domains, self.cols, self.ignored
        t.rows = {k: Row(k, r.present, dict(r.vals)) for k, r in self.rows.items()}
        for a in ('consts', 'notnull', 'defaults'):
            if hasattr(self, a):
                setattr(t, a, getattr(self, a))
        return t

    def col(self, row, c):
        if c in self.keycols:
            return V(row.key[self.keycols.index(c)])
        if c in row.vals:
            return row.vals[c]
        raise HarnessError(f'column {self.name}.{c} is read but not modelled')


class DB:
    def __init__(self, tables, all_columns, interner=None):
        self.t = {t.name: t for t in tables}
        self.allcols = all_columns  # table -> list of every real column name (for name resolution)
        self.S = interner or GLOBAL_S
        self.env_constraints = []  # contracts of nondeterministic stubs (RAND range …)
        self.oob = False           # some write addressed a key outside the modelled key space
        self.err = {}              # kind -> condition under which a statement failed with that error
        self.fresh_n = 0
        self.fresh_prefix = ''
        self.last_row_count = V(0)
        self.uvars = {}
        self.triggers_enabled = True
        self.trace = None
        self.concrete_env = None   # concrete mode: callable(kind, arg) -> int for RAND tokens / dates

    def copy(self):
        d = DB([t.copy() for t in self.t.values()], self.allcols, self.S)
        d.env_constraints = list(self.env_constraints)
        d.oob = self.oob
        d.err = dict(self.err)
        d.fresh_n = self.fresh_n
        d.fresh_prefix = self.fresh_prefix
        d.uvars = dict(self.uvars)
        d.concrete_env = self.concrete_env
        d.triggers_enabled = self.triggers_enabled
        if hasattr(self, 'sizes'):
            d.sizes = self.sizes
        return d

    def fresh(self, name):
        self.fresh_n += 1
        return z3.Int(f'{name}!{self.fresh_prefix}{self.fresh_n}')

    def fresh_name(self, name):
        """concrete mode: the name the symbolic run would have used at this point"""
        self.fresh_n += 1
        return f'{name}!{self.fresh_prefix}{self.fresh_n}'

    def begin_op(self, label):
        self.fresh_prefix = label + '.'
        self.fresh_n = 0

    def add_err(self, kind, cond):
        self.err[kind] = b_or(self.err.get(kind, False), cond)

    def any_err(self):
        return b_or(*self.err.values()) if self.err else False


def merge_db(c, a, b):
    """ite(c, a, b) cell by cell (used for ROLLBACK and statement-level aborts)."""
    out = a.copy()
    for name, ta in a.t.items():
        tb = b.t[name]
        to = out.t[name]
        for k, ra in ta.rows.items():
            rb = tb.rows[k]
            ro = to.rows[k]
            ro.present = ite(c, ra.present, rb.present)
            for col in ta.cols:
                ro.vals[col] = v_ite(c, ra.vals[col], rb.vals[col])
    return out


# ---- frames / scopes ------------------------------------------------------------------------------


class Frame:
    def __init__(self, db, params=None, sqlparams=None):
        self.db = db
        self.vars = dict(params or {})     # local variables and routine parameters (name -> V)
        self.sqlparams = sqlparams or []   # %s placeholders
        self.new = None                    # trigger NEW (dict col -> V), mutable in BEFORE triggers
        self.old = None
        self.new_table = None
        self.alive = True                  # False after an error / LEAVE …
        self.results = []                  # (guard, [(alias, V)])
        self.not_found_handler = None
        self.cursors = {}
        self.snapshot = None
        self.returned = None


class Scope:
    """Row bindings visible to an expression: list of (alias, table_name|None, getter) innermost last."""

    def __init__(self, parent=None):
        self.parent = parent
        self.binds = []  # (alias, colnames(list), get(col)->V)

    def bind(self, alias, colnames, get):
        self.binds.append((alias, colnames, get))

    def child(self):
        return Scope(self)

    def lookup(self, qual, name):
        s = self
        while s is not None:
            hits = []
            for alias, cols, get in s.binds:
                if qual is not None:
                    if alias.lower() == qual.lower() and (cols is None or name in cols):
                        return get(name)
                elif cols is not None and name in cols:
                    hits.append(get)
            if hits:
                return hits[0](name)
            s = s.parent
        return None


AGG = {'SUM', 'COUNT', 'MAX', 'MIN'}


def has_agg(e):
    if not isinstance(e, tuple):
        return False
    if e[0] == 'call' and e[1] in AGG:
        return True
    if e[0] in ('subq', 'exists', 'insub'):
        return False
    for x in e[1:]:
        if isinstance(x, tuple) and has_agg(x):
            return True
        if isinstance(x, list):
            for y in x:
                if isinstance(y, tuple) and has_agg(y):
                    return True
                if isinstance(y, tuple) and len(y) == 2 and any(isinstance(z, tuple) and has_agg(z) for z in y):
                    return True
    return False


class Interp:
    def __init__(self, db):
        self.db = db

    # ================= expressions =================
    def ev(self, e, fr, sc, group=None):
        """group: list of (cond, scope) rows when evaluating inside an aggregate query."""
        k = e[0]
        db = self.db
        if k == 'num':
            return V(e[1])
        if k == 'str':
            return V(db.S.code(e[1]))
        if k == 'null':
            return NULL
        if k == 'bool':
            return V(1 if e[1] else 0)
        if k == 'param':
            if e[1] >= len(fr.sqlparams):
                raise HarnessError('not enough %s parameters for SQL statement')
            return fr.sqlparams[e[1]]
        if k == 'uvar':
            return db.uvars.get(e[1], NULL)
        if k == 'uassign':
            val = self.ev(e[2], fr, sc, group)
            db.uvars[e[1]] = val
            return val
        if k == 'col':
            return self.resolve(e[1], e[2], fr, sc)
        if k == 'un':
            a = self.ev(e[2], fr, sc, group)
            if e[1] == '-':
                return V(-a.v, a.n)
            if e[1] == 'NOT':
                t = truth(V(a.v, False))
                return from_bool(b_not(t), a.n)
        if k == 'isnull':
            a = self.ev(e[1], fr, sc, group)
            return from_bool(b_not(a.n) if e[2] else a.n)
        if k == 'istruth':
            a = self.ev(e[1], fr, sc, group)
            t = truth(a) if e[2] else b_and(b_not(a.n), b_not(truth(V(a.v, False))))
            return from_bool(b_not(t) if e[3] else t)
        if k == 'bin':
            return self.binop(e[1], e[2], e[3], fr, sc, group)
        if k == 'in':
            a = self.ev(e[1], fr, sc, group)
            items = [self.ev(x, fr, sc, group) for x in e[2]]
            hit = b_or(*[b_and(b_not(x.n), i_eq(a.v, x.v)) for x in items])
            anynull = b_or(*[x.n for x in items])
            res = from_bool(hit, b_or(a.n, b_and(b_not(hit), anynull)))
            if e[3]:
                return from_bool(b_not(truth(V(res.v, False))), res.n)
            return res
        if k == 'cast':
            return self.ev(e[1], fr, sc, group)
        if k == 'case':
            out = self.ev(e[2], fr, sc, group)
            for c, v in reversed(e[1]):
                out = v_ite(truth(self.ev(c, fr, sc, group)), self.ev(v, fr, sc, group), out)
            return out
        if k == 'exists':
            rows = self.select_rows(e[1], fr, sc)
            return from_bool(b_or(*[c for c, _ in rows]))
        if k == 'subq':
            rows = self.select_rows(e[1], fr, sc)
            out = NULL
            for c, vals in reversed(rows):
                out = v_ite(c, vals[0][1], out)
            # MySQL error 1242: a scalar subquery that yields more than one row fails the statement
            multi = False
            for a in range(len(rows)):
                for b in range(a + 1, len(rows)):
                    multi = b_or(multi, b_and(rows[a][0], rows[b][0]))
            if multi is not False:
                g = b_and(getattr(fr, 'cur_guard', True), multi)
                db.add_err('subquery-returns-more-than-one-row', g)
                fr.alive = b_and(fr.alive, b_not(g))
            return out
        if k == 'call':
            return self.call(e, fr, sc, group)
        raise HarnessError(f'SQL expression {k} not supported')

    def resolve(self, qual, name, fr, sc):
        if qual is not None and qual.upper() in ('NEW', 'OLD'):
            row = fr.new if qual.upper() == 'NEW' else fr.old
            if row is None:
                raise HarnessError(f'{qual}.{name} outside a trigger')
            if name not in row:
                raise HarnessError(f'{qual}.{name}: column not modelled')
            return row[name]
        if qual is None:
            # MySQL: a local variable or routine parameter takes precedence over a column of the same name
            for key in (name, name.lower()):
                if key in fr.vars:
                    return fr.vars[key]
        if sc is not None:
            got = sc.lookup(qual, name)
            if got is not None:
                return got
        raise HarnessError(f'cannot resolve column/variable {qual + "." if qual else ""}{name}')

    def binop(self, op, l, r, fr, sc, group):
        a = self.ev(l, fr, sc, group)
        if op in ('AND', 'OR'):
            b = self.ev(r, fr, sc, group)
            ta, tb = truth(a), truth(b)
            fa, fb = b_and(b_not(a.n), b_not(ta)), b_and(b_not(b.n), b_not(tb))
            if op == 'AND':
                res = b_and(ta, tb)
                null = b_and(b_not(res), b_not(b_or(fa, fb)))
            else:
                res = b_or(ta, tb)
                null = b_and(b_not(res), b_or(a.n, b.n))
            return from_bool(res, null)
        b = self.ev(r, fr, sc, group)
        n = b_or(a.n, b.n)
        if op in ('=', '!=', '<', '<=', '>', '>='):
            x, y = a.v, b.v
            if CI_COLUMNS and op in ('=', '!=') and any(e_[0] == 'col' and e_[2] in CI_COLUMNS and e_[1] in CI_COLUMNS[e_[2]]
                                                        for e_ in (l, r) if isinstance(e_, tuple) and len(e_) == 3):
                x, y = ci_fold(x), ci_fold(y)   # a comparison involving a case-insensitively collated column
            if not is_sym(x) and not is_sym(y):
                res = {'=': x == y, '!=': x != y, '<': x < y, '<=': x <= y, '>': x > y, '>=': x >= y}[op]
            else:
                res = {'=': lambda: x == y, '!=': lambda: x != y, '<': lambda: x < y, '<=': lambda: x <= y,
                       '>': lambda: x > y, '>=': lambda: x >= y}[op]()
            return from_bool(res, n)
        if op == '<=>':
            return from_bool(b_or(b_and(a.n, b.n), b_and(b_not(a.n), b_not(b.n), i_eq(a.v, b.v))))
        if op == '+':
            return V(a.v + b.v, n)
        if op == '-':
            return V(a.v - b.v, n)
        if op == '*':
            if not is_sym(a.v) or not is_sym(b.v):
                return V(a.v * b.v, n)
            return V(a.v * b.v, n)
        if op in ('DIV', '/'):
            if not is_sym(b.v) and b.v != 0 and op == 'DIV':
                if is_sym(a.v):
                    return V(z3.If(a.v >= 0, a.v / b.v, -((-a.v) / b.v)), n)
                q = abs(a.v) // abs(b.v)
                return V(q if (a.v >= 0) == (b.v > 0) else -q, n)
            raise HarnessError('division not supported in this position')
        raise HarnessError(f'operator {op} not supported')

    def call(self, e, fr, sc, group):
        _, name, args, distinct = e
        db = self.db
        if name in AGG:
            if group is None:
                raise HarnessError(f'aggregate {name} outside an aggregate query')
            return self.aggregate(name, args, fr, group)
        if name in ('COALESCE', 'IFNULL'):
            vals = [self.ev(a, fr, sc, group) for a in args]
            out = vals[-1]
            for v in reversed(vals[:-1]):
                out = v_ite(b_not(v.n), v, out)
            return out
        if name == 'IF':
            c = truth(self.ev(args[0], fr, sc, group))
            return v_ite(c, self.ev(args[1], fr, sc, group), self.ev(args[2], fr, sc, group))
        if name == 'GREATEST' or name == 'LEAST':
            vals = [self.ev(a, fr, sc, group) for a in args]
            out = vals[0]
            for v in vals[1:]:
                if name == 'GREATEST':
                    c = (v.v > out.v)
                else:
                    c = (v.v < out.v)
                out = V(ite(c, v.v, out.v), b_or(out.n, v.n))
            return out
        if name == 'FLOOR':
            a = args[0]
            if a[0] == 'bin' and a[1] == '*' and (a[2] == ('call', 'RAND', [], False) or a[3] == ('call', 'RAND', [], False)):
                other = a[3] if a[2] == ('call', 'RAND', [], False) else a[2]
                n = self.ev(other, fr, sc, group)
                if db.concrete_env is not None:
                    return V(db.concrete_env(db.fresh_name('rand_token'), n.v), n.n)
                tok = db.fresh('rand_token')
                # (unreached trigger instances leave n at 0: the contract only binds when n > 0)
                db.env_constraints.append(z3.Or(n.v <= 0, z3.And(tok >= 0, tok < n.v)) if is_sym(n.v) else z3.And(tok >= 0, tok < n.v))
                return V(tok, n.n)
            return self.ev(a, fr, sc, group)
        if name == 'ROW_COUNT':
            return db.last_row_count
        if name in ('UTC_DATE', 'CURRENT_DATE', 'CURDATE', 'NOW', 'UTC_TIMESTAMP'):
            if db.concrete_env is not None:
                return V(db.concrete_env(db.fresh_name('utc_date'), None))
            return V(db.fresh('utc_date'))
        if name == 'VALUES':
            col = args[0]
            prop = fr.vars.get('__proposed__')
            if prop is None or col[2] not in prop:
                raise HarnessError('VALUES() outside ON DUPLICATE KEY UPDATE')
            return prop[col[2]]
        if name == 'ABS':
            a = self.ev(args[0], fr, sc, group)
            return V(ite(a.v >= 0, a.v, -a.v), a.n)
        # stored function?
        live = catalog.live_routines()
        lname = next((n for n in live if n.upper() == name and live[n]['kind'] == 'FUNCTION'), None)
        if lname:
            r = catalog.routine(lname)
            vals = [self.ev(a, fr, sc, group) for a in args]
            f2 = Frame(db, {p[1]: v for p, v in zip(r['params'], vals)})
            f2.sqlparams = fr.sqlparams
            f2.cur_guard = getattr(fr, 'cur_guard', True)
            body = r['body']
            if len(body) != 1 or body[0][0] != 'return':
                raise HarnessError(f'function {lname}: only a single RETURN is supported')
            return self.ev(body[0][1], f2, None)
        raise HarnessError(f'SQL function {name} not supported')

    def aggregate(self, name, args, fr, group):
        arg = args[0] if args else ('star',)
        tot = 0
        anyrow = False
        best = None
        for cond, sc in group:
            if arg[0] == 'star':
                val = V(1)
            else:
                val = self.ev(arg, fr, sc, None)
                if isinstance(val.v, bool):
                    val = V(1 if val.v else 0, val.n)
            live = b_and(cond, b_not(val.n))
            if name == 'SUM':
                tot = tot + ite(live, val.v, 0)
            elif name == 'COUNT':
                tot = tot + ite(live, 1, 0)
            else:
                if best is None:
                    best = V(val.v, b_not(live))
                else:
                    better = b_and(live, b_or(best.n, (val.v > best.v) if name == 'MAX' else (val.v < best.v)))
                    best = V(ite(better, val.v, best.v), b_and(best.n, b_not(live)))
            anyrow = b_or(anyrow, live)
        if name == 'COUNT':
            return V(tot)
        if name == 'SUM':
            return V(tot, b_not(anyrow))
        return best if best is not None else NULL

    # ================= row sources =================
    def table_cols(self, name):
        if name in self.db.allcols:
            return self.db.allcols[name]
        raise HarnessError(f'unknown table {name}')

    def source_rows(self, ref, fr, outer):
        """-> list of (cond, [binding...]) where binding = (alias, colnames, getter, target or None)."""
        k = ref[0]
        if k == 'table':
            _, name, alias = ref
            if name not in self.db.t:
                raise HarnessError(f'table {name} is not modelled')
            tab = self.db.t[name]
            cols = self.table_cols(name)
            out = []
            for key, row in tab.rows.items():
                if row.present is False:
                    continue
                out.append((row.present, [(alias, cols, (lambda c, tab=tab, row=row: tab.col(row, c)), (tab, row))]))
            return out
        if k == 'derived':
            _, sel, alias, lateral = ref
            rows = self.select_rows(sel, fr, outer if lateral else (outer if outer is None else _strip(outer)))
            out = []
            for cond, vals in rows:
                d = {n: v for n, v in vals}
                out.append((cond, [(alias, list(d), (lambda c, d=d: d[c]), None)]))
            return out
        if k == 'join':
            _, kind, l, r, on = ref
            left = self.source_rows(l, fr, outer)
            out = []
            for lc, lb in left:
                lsc = Scope(outer)
                for b in lb:
                    lsc.bind(b[0], b[1], b[2])
                lateral = r[0] == 'derived' and r[3]
                right = self.source_rows(r, fr, lsc if lateral else outer)
                matched = []
                for rc, rb in right:
                    sc = Scope(outer)
                    for b in lb + rb:
                        sc.bind(b[0], b[1], b[2])
                    c = b_and(lc, rc, truth(self.ev(on, fr, sc)) if on is not None else True)
                    if c is False:
                        continue
                    matched.append(c)
                    out.append((c, lb + rb))
                if kind == 'left':
                    none = b_and(lc, b_not(b_or(*matched)))
                    if none is not False:
                        nb = []
                        for alias, cols in _aliases(r, self):
                            nb.append((alias, cols, (lambda c: NULL), None))
                        out.append((none, lb + nb))
            return out
        raise HarnessError(f'table reference {k} not supported')

    def select_rows(self, sel, fr, outer):
        """-> list of (cond, [(name, V)...]); honours WHERE, GROUP BY, aggregates, ORDER BY/LIMIT on concrete keys."""
        if sel[0] == 'union':
            return self.select_rows(sel[1], fr, outer) + self.select_rows(sel[2], fr, outer)
        s = sel[1]
        if s['from'] is None:
            src = [(True, [])]
        else:
            src = self.source_rows(s['from'], fr, outer)
        rows = []
        for cond, binds in src:
            sc = Scope(outer)
            for b in binds:
                sc.bind(b[0], b[1], b[2])
            c = b_and(cond, truth(self.ev(s['where'], fr, sc)) if s['where'] is not None else True)
            if c is False:
                continue
            rows.append((c, sc))
        items = s['items']
        agg = bool(s['group']) or any(has_agg(e) for e, _ in items)
        out = []
        if agg:
            groups = {}
            if s['group']:
                for c, sc in rows:
                    key = []
                    for ge in s['group']:
                        kv = self.ev(ge, fr, sc)
                        if is_sym(kv.v) or is_sym(kv.n):
                            raise HarnessError('GROUP BY on a symbolic value is not supported')
                        key.append(None if kv.n else kv.v)
                    groups.setdefault(tuple(key), []).append((c, sc))
            else:
                groups[()] = rows
            for key, grows in groups.items():
                gcond = b_or(*[c for c, _ in grows]) if s['group'] else True
                rep = grows[0][1] if grows else Scope(outer)
                vals = []
                for e, alias in items:
                    vals.append((alias or _default_name(e), self.ev(e, fr, rep, grows)))
                if s['having'] is not None:
                    hsc = Scope(rep)
                    d = dict(vals)
                    hsc.bind('', list(d), lambda c, d=d: d[c])
                    gcond = b_and(gcond, truth(self.ev(s['having'], fr, hsc, grows)))
                out.append((gcond, vals, key))
            out.sort(key=lambda t: tuple((x is None, x) for x in t[2]))
            out = [(c, v) for c, v, _ in out]
        else:
            for c, sc in rows:
                vals = []
                for e, alias in items:
                    if e[0] == 'star':
                        for alias_, cols, get in sc.binds:
                            if len(e) > 1 and alias_.lower() != e[1].lower():
                                continue
                            tab = next((t for t in self.db.t.values() if t.name == alias_), None)
                            for cn in cols or []:
                                try:
                                    vals.append((cn, get(cn)))
                                except HarnessError:
                                    pass
                        continue
                    vals.append((alias or _default_name(e), self.ev(e, fr, sc)))
                out.append((c, vals, sc))
            if s['order']:
                def sortkey(t):
                    ks = []
                    for oe, desc in s['order']:
                        kv = self.ev(oe, fr, t[2])
                        if is_sym(kv.v) or is_sym(kv.n):
                            raise HarnessError('ORDER BY on a symbolic value is not supported')
                        ks.append(-kv.v if desc else kv.v)
                    return tuple(ks)
                out.sort(key=sortkey)
            out = [(c, v) for c, v, _ in out]
        if s['limit'] is not None:
            lim = self.ev(s['limit'], fr, None)
            if is_sym(lim.v):
                raise HarnessError('symbolic LIMIT')
            if lim.v < len(out):
                if lim.v != 1:
                    raise HarnessError('LIMIT other than 1 below the row-space size is not supported')
                # first row whose condition holds
                new = []
                prev = False
                for c, v in out:
                    new.append((b_and(c, b_not(prev)), v))
                    prev = b_or(prev, c)
                out = new
        return out

    # ================= statements =================
    def run_block(self, stmts, fr, guard):
        for st in stmts:
            self.stmt(st, fr, b_and(guard, fr.alive))

    def assign_var(self, fr, tgt, val, guard):
        if tgt[0] == 'uvar':
            self.db.uvars[tgt[1]] = v_ite(guard, val, self.db.uvars.get(tgt[1], NULL))
            return
        _, qual, name = tgt
        if qual is not None and qual.upper() == 'NEW':
            if name not in fr.new:
                if fr.new_table is not None and name in fr.new_table.ignored:
                    return
                raise HarnessError(f'NEW.{name} not modelled')
            fr.new[name] = v_ite(guard, val, fr.new[name])
            return
        if qual is not None:
            raise HarnessError(f'cannot assign {qual}.{name}')
        if name not in fr.vars:
            raise HarnessError(f'assignment to undeclared variable {name}')
        fr.vars[name] = v_ite(guard, val, fr.vars[name])

    def stmt(self, st, fr, guard):
        if guard is False:
            return
        fr.cur_guard = guard
        k = st[0]
        db = self.db
        if k == 'declare':
            init = self.ev(st[3], fr, None) if st[3] is not None else NULL
            for n in st[1]:
                fr.vars[n] = init
            return
        if k == 'handler':
            fr.not_found_handler = st[3]
            return
        if k == 'cursor':
            fr.cursors[st[1]] = {'select': st[2], 'rows': None}
            return
        if k == 'set':
            for tgt, e in st[1]:
                self.assign_var(fr, tgt, self.ev(e, fr, None), guard)
            return
        if k == 'if':
            taken = False
            for c, body in st[1]:
                cv = truth(self.ev(c, fr, None))
                g = b_and(guard, b_not(taken), cv)
                self.run_block(body, fr, g)
                taken = b_or(taken, cv)
            self.run_block(st[2], fr, b_and(guard, b_not(taken)))
            return
        if k == 'block':
            self.run_block(st[1], fr, guard)
            return
        if k == 'selectstmt':
            sel = st[1]
            if sel[0] == 'select' and sel[1]['into']:
                rows = self.select_rows(sel, fr, None)
                into = sel[1]['into']
                anyrow = False
                for c, vals in rows:
                    if len(vals) != len(into):
                        raise HarnessError('SELECT INTO arity mismatch')
                    g = b_and(guard, c, b_not(anyrow))
                    for tgt, (_, v) in zip(into, vals):
                        self.assign_var(fr, tgt, v, g)
                    anyrow = b_or(anyrow, c)
                nf = b_and(guard, b_not(anyrow))
                if nf is not False and fr.not_found_handler is not None:
                    self.stmt(fr.not_found_handler, fr, nf)
                return
            rows = self.select_rows(sel, fr, None)
            fr.results.append((guard, rows))
            return
        if k == 'insert':
            return self.do_insert(st, fr, guard)
        if k == 'update':
            return self.do_update(st, fr, guard)
        if k == 'delete':
            return self.do_delete(st, fr, guard)
        if k == 'callstmt':
            return self.do_call(st[1], [self.ev(a, fr, None) if not (a[0] == 'col' and a[1] is None and a[2] in fr.vars)
                                        else a for a in st[2]], fr, guard)
        if k == 'start':
            fr.snapshot = db.copy()
            return
        if k == 'commit':
            return
        if k == 'rollback':
            if fr.snapshot is None:
                raise HarnessError('ROLLBACK without START TRANSACTION in the same routine')
            merged = merge_db(guard, fr.snapshot, db)
            for name in db.t:
                db.t[name] = merged.t[name]
            return
        if k == 'signal':
            db.add_err('signal:' + str(st[2]), guard)
            fr.alive = b_and(fr.alive, b_not(guard))
            return
        if k == 'open':
            cur = fr.cursors[st[1]]
            cur['rows'] = self.select_rows(cur['select'], fr, None)
            return
        if k == 'closec':
            return
        if k == 'loop':
            return self.do_cursor_loop(st, fr, guard)
        if k == 'return':
            fr.returned = self.ev(st[1], fr, None)
            return
        raise HarnessError(f'SQL statement {k} not supported')

    def do_cursor_loop(self, st, fr, guard):
        _, label, body = st
        if not (len(body) >= 2 and body[0][0] == 'fetch' and body[1][0] == 'if' and len(body[1][1]) == 1
                and body[1][1][0][1] == [('leave', label)] and not body[1][2]):
            raise HarnessError('LOOP shape not supported (expected FETCH; IF done THEN LEAVE; …)')
        cur = fr.cursors[body[0][1]]
        if cur['rows'] is None:
            raise HarnessError('FETCH from unopened cursor')
        targets = body[0][2]
        leave_cond = body[1][1][0][0]
        left = False
        for c, vals in cur['rows']:
            g = b_and(guard, c, fr.alive, b_not(left))
            if g is False:
                continue
            for tgt, (_, v) in zip(targets, vals):
                self.assign_var(fr, tgt, v, g)
            # the handler may already have fired inside an earlier iteration (a SELECT … INTO that found
            # no row also raises NOT FOUND): the real loop then leaves here
            lv = truth(self.ev(leave_cond, fr, None))
            left = b_or(left, b_and(g, lv))
            self.run_block(body[2:], fr, b_and(g, b_not(lv)))
        if fr.not_found_handler is not None:
            self.stmt(fr.not_found_handler, fr, b_and(guard, b_not(left)))

    def do_call(self, name, args, fr, guard):
        r = catalog.routine(name)
        if r['kind'] != 'PROCEDURE':
            raise HarnessError(f'CALL of non-procedure {name}')
        f2 = Frame(self.db)
        f2.sqlparams = fr.sqlparams
        outs = []
        for (mode, pname), a in zip(r['params'], args):
            if mode == 'IN':
                f2.vars[pname] = a if isinstance(a, V) else self.ev(a, fr, None)
            else:
                if isinstance(a, V):
                    raise HarnessError('OUT parameter needs a variable')
                outs.append((pname, a))
                f2.vars[pname] = NULL if mode == 'OUT' else self.ev(a, fr, None)
        self.run_block(r['body'], f2, guard)
        for pname, a in outs:
            self.assign_var(fr, ('col', None, a[2]), f2.vars[pname], guard)
        fr.alive = b_and(fr.alive, b_or(b_not(guard), f2.alive))
        fr.results.extend(f2.results)
        return f2

    # ---- INSERT ----
    def do_insert(self, st, fr, guard):
        _, tname, cols, rows, sel, odku, ignore = st
        db = self.db
        if tname not in db.t:
            raise HarnessError(f'INSERT into unmodelled table {tname}')
        tab = db.t[tname]
        if cols is None:
            cols = self.table_cols(tname)
        proposals = []  # (cond, {col: V}, source scope)
        if rows is not None:
            for r in rows:
                if len(r) != len(cols):
                    raise HarnessError('INSERT arity mismatch')
                proposals.append((True, None, r))
        else:
            pass
        total_inserted = 0
        total_changed = 0
        affected = 0
        if rows is not None:
            for _, _, r in proposals:
                vals = {c: self.ev(e, fr, None) for c, e in zip(cols, r)}
                ins, chg = self.insert_one(tab, vals, odku, fr, guard, None, ignore)
                total_inserted, total_changed = ins, chg
                affected = affected + ite(ins, 1, 0)
        else:
            # INSERT … SELECT: row-at-a-time (S5): select-list side effects (@v := …) happen per produced row
            s = sel[1]
            if s['group'] or any(has_agg(e) for e, _ in s['items']):
                # evaluate group by group so that @vars are per row
                for c, vals, sc in self.select_groups(sel, fr):
                    d = {col: v for col, (_, v) in zip(cols, vals)}
                    ins, chg = self.insert_one(tab, d, odku, fr, b_and(guard, c), sc, ignore)
                    total_inserted, total_changed = ins, chg
                    affected = affected + ite(ins, 1, 0)
            else:
                src = self.source_rows(s['from'], fr, None) if s['from'] is not None else [(True, [])]
                for cond, binds in src:
                    sc = Scope(None)
                    for b in binds:
                        sc.bind(b[0], b[1], b[2])
                    c = b_and(cond, truth(self.ev(s['where'], fr, sc)) if s['where'] is not None else True)
                    if c is False:
                        continue
                    if len(s['items']) != len(cols):
                        raise HarnessError('INSERT … SELECT arity mismatch')
                    d = {col: self.ev(e, fr, sc) for col, (e, _) in zip(cols, s['items'])}
                    ins, chg = self.insert_one(tab, d, odku, fr, b_and(guard, c), sc, ignore)
                    total_inserted, total_changed = ins, chg
                    affected = affected + ite(ins, 1, 0)
        db.last_affected = affected
        db.last_row_count = V(ite(total_inserted, 1, ite(total_changed, 2, 0))) if rows is not None and len(rows) == 1 \
            else V(db.fresh('row_count'))

    def select_groups(self, sel, fr):
        """Like select_rows for aggregate queries but lazily, one group at a time (so that user-variable
        assignments in the select list are interleaved with the consumer), yielding the group's scope."""
        s = sel[1]
        src = self.source_rows(s['from'], fr, None)
        rows = []
        for cond, binds in src:
            sc = Scope(None)
            for b in binds:
                sc.bind(b[0], b[1], b[2])
            c = b_and(cond, truth(self.ev(s['where'], fr, sc)) if s['where'] is not None else True)
            if c is not False:
                rows.append((c, sc))
        groups = {}
        if s['group']:
            for c, sc in rows:
                key = []
                for ge in s['group']:
                    kv = self.ev(ge, fr, sc)
                    if is_sym(kv.v) or is_sym(kv.n):
                        raise HarnessError('GROUP BY on a symbolic value is not supported')
                    key.append(None if kv.n else kv.v)
                groups.setdefault(tuple(key), []).append((c, sc))
        else:
            groups[()] = rows
        for key in sorted(groups, key=lambda t: tuple((x is None, x) for x in t)):
            grows = groups[key]
            gcond = b_or(*[c for c, _ in grows]) if s['group'] else True
            rep = grows[0][1] if grows else Scope(None)
            vals = [(alias or _default_name(e), self.ev(e, fr, rep, grows)) for e, alias in s['items']]
            yield gcond, vals, rep

    def insert_one(self, tab, vals, odku, fr, guard, src_scope, ignore=False):
        """Insert one proposed row (possibly with symbolic key).  Returns (inserted?, changed?) conditions."""
        db = self.db
        for c in vals:
            if c not in tab.keycols and c not in tab.cols and c not in tab.ignored:
                raise HarnessError(f'INSERT into {tab.name}.{c}: column not modelled')
        keyvals = []
        for kc in tab.keycols:
            if kc not in vals:
                raise HarnessError(f'INSERT into {tab.name} without key column {kc}')
            keyvals.append(vals[kc])
        # BEFORE INSERT triggers (may SIGNAL)
        sig = False
        if db.triggers_enabled:
            for trg in catalog.triggers_for(tab.name, 'BEFORE', 'INSERT'):
                f2 = Frame(db)
                f2.new = dict(vals)
                f2.new_table = tab
                before = dict(db.err)
                self.run_block(trg['body'], f2, guard)
                sig = b_or(sig, b_not(f2.alive))
                vals = f2.new
        guard_ok = b_and(guard, b_not(sig))
        if sig is not False:
            fr.alive = b_and(fr.alive, b_not(b_and(guard, sig)))
        inserted_any = False
        changed_any = False
        matched_any = False
        for key, row in tab.rows.items():
            m = b_and(*[b_and(b_not(kv.n), i_eq(kv.v, k)) for kv, k in zip(keyvals, key)])
            if m is False:
                continue
            matched_any = b_or(matched_any, m)
            g = b_and(guard_ok, m)
            exists = row.present
            # fresh insert
            gi = b_and(g, b_not(exists))
            # existing row
            ge = b_and(g, exists)
            newvals = {}
            if ge is not False:
                if odku is None:
                    if not ignore:
                        db.add_err('dup:' + tab.name, ge)
                        fr.alive = b_and(fr.alive, b_not(ge))
                    upd = dict(row.vals)
                else:
                    sc = Scope(src_scope)
                    cur = dict(row.vals)
                    sc.bind(tab.name, self.table_cols(tab.name),
                            lambda c, cur=cur, key=key, tab=tab: V(key[tab.keycols.index(c)]) if c in tab.keycols else _get(cur, c, tab))
                    saved = fr.vars.get('__proposed__')
                    fr.vars['__proposed__'] = vals
                    for tgt, e in odku:
                        cn = tgt[2]
                        val = self.ev(e, fr, sc)
                        if cn in tab.keycols:
                            continue  # `batch_id = batch_id` no-op idiom
                        if cn in tab.ignored:
                            continue
                        if cn not in cur:
                            raise HarnessError(f'ON DUPLICATE KEY UPDATE {tab.name}.{cn}: column not modelled')
                        cur[cn] = val
                    if saved is None:
                        fr.vars.pop('__proposed__', None)
                    else:
                        fr.vars['__proposed__'] = saved
                    upd = cur
                    ch = b_or(*[b_or(b_not(i_eq(upd[c].v, row.vals[c].v)), b_not(_beq(upd[c].n, row.vals[c].n))) for c in tab.cols])
                    changed_any = b_or(changed_any, b_and(ge, ch))
            else:
                upd = row.vals
            inserted_any = b_or(inserted_any, gi)
            for c in tab.cols:
                ins_v = vals.get(c, _default(tab, c))
                nv = row.vals[c]
                if ge is not False and odku is not None:
                    nv = v_ite(ge, upd[c], nv)
                nv = v_ite(gi, ins_v, nv)
                newvals[c] = nv
            row.vals = newvals
            row.present = b_or(row.present, gi)
            # AFTER INSERT triggers
            if db.triggers_enabled and gi is not False:
                for trg in catalog.triggers_for(tab.name, 'AFTER', 'INSERT'):
                    f2 = Frame(db)
                    f2.new = {**{kc: V(k) for kc, k in zip(tab.keycols, key)}, **{c: vals.get(c, _default(tab, c)) for c in tab.cols}}
                    f2.new_table = tab
                    self.run_block(trg['body'], f2, gi)
        db.oob = b_or(db.oob, b_and(guard_ok, b_not(matched_any)))
        return inserted_any, changed_any

    # ---- UPDATE ----
    def do_update(self, st, fr, guard):
        _, refs, assigns, where, limit = st
        db = self.db
        if limit is not None:
            raise HarnessError('UPDATE … LIMIT not supported')
        src = self.source_rows(refs, fr, None)
        # which table does each assignment target?
        updated = {}  # (table name, key) -> cond already updated
        for cond, binds in src:
            sc = Scope(None)
            work = {}
            for alias, cols, get, target in binds:
                if target is not None:
                    tab, row = target
                    cur = dict(row.vals)
                    work[alias] = (tab, row, cur)
                    sc.bind(alias, cols, (lambda c, tab=tab, row=row, cur=cur: V(row.key[tab.keycols.index(c)])
                                          if c in tab.keycols else _get(cur, c, tab)))
                else:
                    sc.bind(alias, cols, get)
            c = b_and(guard, cond, truth(self.ev(where, fr, sc)) if where is not None else True)
            if c is False:
                continue
            touched = {}
            for tgt, e in assigns:
                _, qual, cn = tgt
                cand = [a for a, (tab, row, cur) in work.items()
                        if (qual is None or a.lower() == qual.lower()) and (cn in tab.cols or cn in tab.keycols or cn in tab.ignored
                                                                           or cn in self.table_cols(tab.name))]
                if not cand:
                    if any(t is None and (qual is None or a_.lower() == qual.lower()) and (cols_ is None or cn in cols_)
                           for a_, cols_, _, t in binds):
                        continue  # NULL-extended row of a LEFT JOIN / derived table: nothing to update
                    raise HarnessError(f'UPDATE target {qual}.{cn} not found')
                a = cand[0]
                tab, row, cur = work[a]
                if cn in tab.ignored or (cn not in tab.cols and cn not in tab.keycols):
                    if cn in tab.ignored:
                        continue
                    raise HarnessError(f'UPDATE {tab.name}.{cn}: column not modelled')
                if cn in tab.keycols:
                    raise HarnessError('UPDATE of a key column not supported')
                cur[cn] = self.ev(e, fr, sc)
                touched[a] = True
            for a in touched:
                tab, row, cur = work[a]
                done = updated.get((tab.name, row.key), False)
                eff = b_and(c, b_not(done))
                updated[(tab.name, row.key)] = b_or(done, c)
                if eff is False:
                    continue
                old = dict(row.vals)
                new = {cn: cur[cn] for cn in tab.cols}
                if db.triggers_enabled:
                    for trg in catalog.triggers_for(tab.name, 'BEFORE', 'UPDATE'):
                        f2 = Frame(db)
                        f2.old = {**{kc: V(k) for kc, k in zip(tab.keycols, row.key)}, **old}
                        f2.new = {**{kc: V(k) for kc, k in zip(tab.keycols, row.key)}, **new}
                        f2.new_table = tab
                        self.run_block(trg['body'], f2, eff)
                        new = {cn: f2.new[cn] for cn in tab.cols}
                row.vals = {cn: v_ite(eff, new[cn], old[cn]) for cn in tab.cols}
                if db.triggers_enabled:
                    for trg in catalog.triggers_for(tab.name, 'AFTER', 'UPDATE'):
                        f2 = Frame(db)
                        f2.old = {**{kc: V(k) for kc, k in zip(tab.keycols, row.key)}, **old}
                        f2.new = {**{kc: V(k) for kc, k in zip(tab.keycols, row.key)}, **new}
                        f2.new_table = tab
                        self.run_block(trg['body'], f2, eff)
        db.last_row_count = V(db.fresh('row_count'))

    def do_delete(self, st, fr, guard):
        _, tname, where, order, limit = st
        db = self.db
        if tname not in db.t:
            raise HarnessError(f'DELETE from unmodelled table {tname}')
        tab = db.t[tname]
        cols = self.table_cols(tname)
        if limit is not None:
            lim = self.ev(limit, fr, None)
            if is_sym(lim.v) or lim.v < len(tab.rows):
                raise HarnessError('DELETE … LIMIT below the key-space size is not supported')
        if catalog.triggers_for(tname, 'BEFORE', 'DELETE') or catalog.triggers_for(tname, 'AFTER', 'DELETE'):
            raise HarnessError('DELETE triggers not supported')
        for key, row in tab.rows.items():
            if row.present is False:
                continue
            sc = Scope(None)
            sc.bind(tname, cols, lambda c, tab=tab, row=row: tab.col(row, c))
            c = b_and(guard, row.present, truth(self.ev(where, fr, sc)) if where is not None else True)
            row.present = b_and(row.present, b_not(c))


def _beq(a, b):
    if isinstance(a, bool) and isinstance(b, bool):
        return a == b
    return a == b


def _get(cur, c, tab):
    if c in cur:
        return cur[c]
    raise HarnessError(f'column {tab.name}.{c} is read but not modelled')


def _default(tab, c):
    d = getattr(tab, 'defaults', {})
    return d.get(c, NULL)


def _default_name(e):
    if e[0] == 'col':
        return e[2]
    if e[0] == 'uassign':
        return '@' + e[1]
    return '?expr'


def _strip(sc):
    return sc


def _aliases(ref, interp):
    if ref[0] == 'table':
        return [(ref[2], interp.table_cols(ref[1]))]
    if ref[0] == 'derived':
        names = [a or _default_name(e) for e, a in ref[1][1]['items']]
        return [(ref[2], names)]
    if ref[0] == 'join':
        return _aliases(ref[2], interp) + _aliases(ref[3], interp)
    return []


def all_columns():
    """Column names per table from batch/sql/estimated-current.sql (used for name resolution only)."""
    text = open(os.path.join(REPO, 'batch', 'sql', 'estimated-current.sql'), encoding='utf-8').read()
    out = {}
    for m in re.finditer(r'CREATE TABLE IF NOT EXISTS `(\w+)` \((.*?)\n\) ENGINE', text, re.S):
        out[m.group(1)] = re.findall(r'^\s+`(\w+)` [A-Za-z]+', m.group(2), re.M)
    if 'jobs' not in out:
        raise HarnessError('estimated-current.sql: table definitions not found')
    return out
