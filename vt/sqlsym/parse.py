"""Lexer + recursive-descent parser for the MySQL dialect subset used by the batch schema's stored
routines and by the SQL strings embedded in the batch service's Python.  An unparseable statement
raises SqlSyntax (the caller turns it into an INCONCLUSIVE, never a pass).

AST nodes are tuples ('kind', ...).  Expressions:
  ('num', int) ('str', s) ('null',) ('bool', b) ('param', index) ('col', qualifier|None, name)
  ('uvar', name) ('uassign', name, e) ('un', op, e) ('bin', op, l, r) ('isnull', e, negated)
  ('in', e, [e...], negated) ('call', NAME, [args], distinct) ('cast', e, type) ('exists', select)
  ('subq', select) ('case', [(when, then)...], else) ('star',)
Select: ('select', {items:[(expr, alias)], into:[names], from:tableref|None, where, group:[e], having,
         order:[(e, desc)], limit, lock})
Table refs: ('table', name, alias) ('derived', select, alias, lateral) ('join', kind, left, right, on)
"""
import re


class SqlSyntax(Exception):
    pass


KEYWORDS = {
    'SELECT', 'FROM', 'WHERE', 'GROUP', 'BY', 'HAVING', 'ORDER', 'LIMIT', 'OFFSET', 'INTO', 'AS', 'ON', 'JOIN', 'INNER',
    'LEFT', 'RIGHT', 'CROSS', 'OUTER', 'LATERAL', 'STRAIGHT_JOIN', 'AND', 'OR', 'XOR', 'NOT', 'IS', 'NULL', 'TRUE', 'FALSE',
    'IN', 'EXISTS', 'CAST', 'INSERT', 'IGNORE', 'VALUES', 'DUPLICATE', 'KEY', 'UPDATE', 'SET', 'DELETE', 'CALL', 'IF', 'THEN',
    'ELSEIF', 'ELSE', 'END', 'DECLARE', 'DEFAULT', 'CURSOR', 'FOR', 'CONTINUE', 'EXIT', 'HANDLER', 'FOUND', 'OPEN', 'FETCH',
    'CLOSE', 'LOOP', 'LEAVE', 'BEGIN', 'START', 'TRANSACTION', 'COMMIT', 'ROLLBACK', 'SIGNAL', 'SQLSTATE', 'RETURN',
    'SHARE', 'LOCK', 'MODE', 'ASC', 'DESC', 'DIV', 'MOD', 'UNION', 'ALL', 'DISTINCT', 'CASE', 'WHEN', 'BETWEEN', 'LIKE',
    'INTERVAL', 'USING', 'WHILE', 'DO', 'REPEAT', 'UNTIL', 'ITERATE', 'SKIP', 'LOCKED', 'NOWAIT', 'OF', 'SIGNED', 'UNSIGNED',
    'FORCE', 'INDEX', 'USE',
}

TOKEN_RE = re.compile(r'''
    (?P<ws>\s+|\#[^\n]*|--[^\n]*|/\*.*?\*/)
  | (?P<num>\d+(?:\.\d+)?)
  | (?P<str>'(?:[^'\\]|\\.|'')*'|"(?:[^"\\]|\\.|"")*")
  | (?P<bq>`[^`]+`)
  | (?P<param>%s|%\((?P<pname>\w+)\)s)
  | (?P<uvar>@[A-Za-z_][A-Za-z0-9_]*)
  | (?P<id>[A-Za-z_][A-Za-z0-9_$]*)
  | (?P<op>:=|<=>|<>|!=|<=|>=|\|\||&&|[-+*/%=<>(),.;:!])
''', re.X | re.S)


def lex(text):
    out = []
    i = 0
    nparam = 0
    while i < len(text):
        m = TOKEN_RE.match(text, i)
        if not m:
            raise SqlSyntax(f'cannot lex at {text[i:i + 30]!r}')
        i = m.end()
        k = m.lastgroup
        if k == 'pname':
            k = 'param'
        if k == 'ws':
            continue
        v = m.group(k)
        if k == 'num':
            if '.' in v:
                raise SqlSyntax(f'decimal literal {v} not supported')
            out.append(('num', int(v)))
        elif k == 'str':
            body = v[1:-1]
            body = body.replace("''", "'") if v[0] == "'" else body.replace('""', '"')
            body = re.sub(r'\\(.)', lambda mm: {'n': '\n', 't': '\t', '0': '\0'}.get(mm.group(1), mm.group(1)), body)
            out.append(('str', body))
        elif k == 'bq':
            out.append(('id', v[1:-1]))
        elif k == 'param':
            out.append(('param', nparam))
            nparam += 1
        elif k == 'uvar':
            out.append(('uvar', v[1:]))
        elif k == 'id':
            if v.upper() in KEYWORDS:
                out.append(('kw', v.upper(), v))
            else:
                out.append(('id', v))
        else:
            out.append(('op', v))
    out.append(('eof',))
    return out


class Parser:
    def __init__(self, text):
        self.text = text
        self.toks = lex(text)
        self.i = 0

    # ---- token helpers ---------------------------------------------------------------------
    @property
    def t(self):
        return self.toks[self.i]

    def peek(self, k=1):
        return self.toks[min(self.i + k, len(self.toks) - 1)]

    def kw(self, *names):
        t = self.t
        return t[0] == 'kw' and t[1] in names

    def kws(self, *seq):
        for k, name in enumerate(seq):
            t = self.toks[min(self.i + k, len(self.toks) - 1)]
            if not (t[0] == 'kw' and t[1] == name):
                return False
        return True

    def op(self, *ops):
        t = self.t
        return t[0] == 'op' and t[1] in ops

    def accept_kw(self, *names):
        if self.kw(*names):
            v = self.t[1]
            self.i += 1
            return v
        return None

    def accept_op(self, *ops):
        if self.op(*ops):
            v = self.t[1]
            self.i += 1
            return v
        return None

    def expect_kw(self, *names):
        v = self.accept_kw(*names)
        if v is None:
            self.fail(f'expected {"/".join(names)}')
        return v

    def expect_op(self, *ops):
        v = self.accept_op(*ops)
        if v is None:
            self.fail(f'expected {" ".join(ops)}')
        return v

    def fail(self, msg):
        ctx = ' '.join(str(x[-1]) for x in self.toks[max(0, self.i - 6):self.i + 6])
        raise SqlSyntax(f'{msg} near: {ctx}')

    def ident(self):
        t = self.t
        if t[0] == 'id':
            self.i += 1
            return t[1]
        # non-reserved keywords used as identifiers (column names like `key`, `state`, `user`, `mode`)
        if t[0] == 'kw' and t[1] in ('KEY', 'MODE', 'SHARE', 'FOUND', 'OPEN', 'CLOSE', 'START', 'END', 'OFFSET', 'INDEX',
                                     'DEFAULT', 'SIGNED', 'OF', 'LOCKED', 'SKIP', 'DO', 'TRANSACTION', 'HANDLER', 'CURSOR'):
            self.i += 1
            return t[2]
        self.fail('expected identifier')

    # ---- expressions -----------------------------------------------------------------------
    def expr(self):
        return self.p_assign()

    def p_assign(self):
        if self.t[0] == 'uvar' and self.peek()[0] == 'op' and self.peek()[1] == ':=':
            name = self.t[1]
            self.i += 2
            return ('uassign', name, self.p_assign())
        return self.p_or()

    def p_or(self):
        l = self.p_xor()
        while self.kw('OR') or self.op('||'):
            self.i += 1
            l = ('bin', 'OR', l, self.p_xor())
        return l

    def p_xor(self):
        l = self.p_and()
        while self.kw('XOR'):
            self.i += 1
            l = ('bin', 'XOR', l, self.p_and())
        return l

    def p_and(self):
        l = self.p_not()
        while self.kw('AND') or self.op('&&'):
            self.i += 1
            l = ('bin', 'AND', l, self.p_not())
        return l

    def p_not(self):
        if self.accept_kw('NOT'):
            return ('un', 'NOT', self.p_not())
        return self.p_cmp()

    def p_cmp(self):
        l = self.p_add()
        while True:
            if self.op('=', '!=', '<>', '<', '<=', '>', '>=', '<=>'):
                o = self.t[1]
                self.i += 1
                r = self.p_add()
                l = ('bin', {'<>': '!='}.get(o, o), l, r)
            elif self.kw('IS'):
                self.i += 1
                neg = bool(self.accept_kw('NOT'))
                if self.accept_kw('NULL'):
                    l = ('isnull', l, neg)
                elif self.kw('TRUE', 'FALSE'):
                    v = self.accept_kw('TRUE', 'FALSE') == 'TRUE'
                    l = ('istruth', l, v, neg)
                else:
                    self.fail('expected NULL/TRUE/FALSE after IS')
            elif self.kw('IN') or (self.kw('NOT') and self.peek()[0] == 'kw' and self.peek()[1] == 'IN'):
                neg = bool(self.accept_kw('NOT'))
                self.expect_kw('IN')
                self.expect_op('(')
                if self.kw('SELECT'):
                    sub = self.select()
                    self.expect_op(')')
                    l = ('insub', l, sub, neg)
                else:
                    items = [self.expr()]
                    while self.accept_op(','):
                        items.append(self.expr())
                    self.expect_op(')')
                    l = ('in', l, items, neg)
            elif self.kw('BETWEEN'):
                self.i += 1
                a = self.p_add()
                self.expect_kw('AND')
                b = self.p_add()
                l = ('bin', 'AND', ('bin', '>=', l, a), ('bin', '<=', l, b))
            elif self.kw('LIKE'):
                self.fail('LIKE not supported')
            else:
                return l

    def p_add(self):
        l = self.p_mul()
        while self.op('+', '-'):
            o = self.t[1]
            self.i += 1
            l = ('bin', o, l, self.p_mul())
        return l

    def p_mul(self):
        l = self.p_unary()
        while self.op('*', '/', '%') or self.kw('DIV', 'MOD'):
            o = self.t[1]
            self.i += 1
            l = ('bin', {'MOD': '%'}.get(o, o), l, self.p_unary())
        return l

    def p_unary(self):
        if self.accept_op('-'):
            return ('un', '-', self.p_unary())
        if self.accept_op('+'):
            return self.p_unary()
        if self.accept_op('!'):
            return ('un', 'NOT', self.p_unary())
        return self.p_primary()

    def p_primary(self):
        t = self.t
        if t[0] == 'num':
            self.i += 1
            return ('num', t[1])
        if t[0] == 'str':
            self.i += 1
            return ('str', t[1])
        if t[0] == 'param':
            self.i += 1
            return ('param', t[1])
        if t[0] == 'uvar':
            self.i += 1
            return ('uvar', t[1])
        if self.accept_kw('NULL'):
            return ('null',)
        if self.accept_kw('TRUE'):
            return ('bool', True)
        if self.accept_kw('FALSE'):
            return ('bool', False)
        if self.kw('EXISTS'):
            self.i += 1
            self.expect_op('(')
            s = self.select()
            self.expect_op(')')
            return ('exists', s)
        if self.kw('CAST'):
            self.i += 1
            self.expect_op('(')
            e = self.expr()
            self.expect_kw('AS')
            ty = []
            depth = 0
            while not (self.op(')') and depth == 0):
                if self.op('('):
                    depth += 1
                if self.op(')'):
                    depth -= 1
                ty.append(str(self.t[-1]))
                self.i += 1
            self.expect_op(')')
            return ('cast', e, ' '.join(ty).upper())
        if self.kw('CASE'):
            self.i += 1
            base = None
            if not self.kw('WHEN'):
                base = self.expr()
            whens = []
            while self.accept_kw('WHEN'):
                c = self.expr()
                self.expect_kw('THEN')
                v = self.expr()
                whens.append((('bin', '=', base, c) if base is not None else c, v))
            els = ('null',)
            if self.accept_kw('ELSE'):
                els = self.expr()
            self.expect_kw('END')
            return ('case', whens, els)
        if self.kw('IF') and self.peek()[0] == 'op' and self.peek()[1] == '(':
            self.i += 1
            args = self.call_args()
            return ('call', 'IF', args, False)
        if self.kw('VALUES', 'LEFT', 'RIGHT', 'MOD') and self.peek()[0] == 'op' and self.peek()[1] == '(':
            name = self.t[1]
            self.i += 1
            return ('call', name, self.call_args(), False)
        if self.op('('):
            self.i += 1
            if self.kw('SELECT'):
                s = self.select()
                self.expect_op(')')
                return ('subq', s)
            e = self.expr()
            if self.op(','):
                items = [e]
                while self.accept_op(','):
                    items.append(self.expr())
                self.expect_op(')')
                return ('tuple', items)
            self.expect_op(')')
            return e
        if self.op('*'):
            self.i += 1
            return ('star',)
        if t[0] == 'id' or t[0] == 'kw':
            name = self.ident()
            if self.op('('):
                distinct = False
                self.i += 1
                if self.accept_kw('DISTINCT'):
                    distinct = True
                args = []
                if not self.op(')'):
                    args.append(self.expr())
                    while self.accept_op(','):
                        args.append(self.expr())
                self.expect_op(')')
                return ('call', name.upper(), args, distinct)
            if self.op('.'):
                self.i += 1
                if self.op('*'):
                    self.i += 1
                    return ('star', name)
                col = self.ident()
                return ('col', name, col)
            return ('col', None, name)
        self.fail('expected expression')

    def call_args(self):
        self.expect_op('(')
        args = []
        if not self.op(')'):
            args.append(self.expr())
            while self.accept_op(','):
                args.append(self.expr())
        self.expect_op(')')
        return args

    # ---- SELECT ----------------------------------------------------------------------------
    def select(self):
        self.expect_kw('SELECT')
        distinct = bool(self.accept_kw('DISTINCT'))
        items = []
        while True:
            e = self.expr()
            alias = None
            if self.accept_kw('AS'):
                alias = self.ident()
            elif self.t[0] == 'id':
                alias = self.ident()
            items.append((e, alias))
            if not self.accept_op(','):
                break
        into = None
        if self.accept_kw('INTO'):
            into = [self.var_target()]
            while self.accept_op(','):
                into.append(self.var_target())
        frm = None
        if self.accept_kw('FROM'):
            frm = self.table_refs()
        where = None
        if self.accept_kw('WHERE'):
            where = self.expr()
        group = []
        if self.kws('GROUP', 'BY'):
            self.i += 2
            group.append(self.expr())
            while self.accept_op(','):
                group.append(self.expr())
        having = None
        if self.accept_kw('HAVING'):
            having = self.expr()
        order = []
        if self.kws('ORDER', 'BY'):
            self.i += 2
            while True:
                e = self.expr()
                desc = False
                if self.accept_kw('DESC'):
                    desc = True
                else:
                    self.accept_kw('ASC')
                order.append((e, desc))
                if not self.accept_op(','):
                    break
        limit = None
        if self.accept_kw('LIMIT'):
            limit = self.expr()
            if self.accept_kw('OFFSET'):
                self.fail('OFFSET not supported')
        if into is None and self.accept_kw('INTO'):
            into = [self.var_target()]
            while self.accept_op(','):
                into.append(self.var_target())
        lock = self.locking()
        sel = ('select', {'items': items, 'into': into, 'from': frm, 'where': where, 'group': group, 'having': having,
                          'order': order, 'limit': limit, 'lock': lock, 'distinct': distinct})
        if self.kw('UNION'):
            self.i += 1
            all_ = bool(self.accept_kw('ALL'))
            rhs = self.select()
            return ('union', sel, rhs, all_)
        return sel

    def locking(self):
        lock = None
        while True:
            if self.kws('FOR', 'UPDATE'):
                self.i += 2
                lock = 'update'
            elif self.kws('FOR', 'SHARE'):
                self.i += 2
                lock = 'share'
            elif self.kws('LOCK', 'IN', 'SHARE', 'MODE'):
                self.i += 4
                lock = 'share'
            else:
                break
            if self.accept_kw('OF'):
                self.ident()
            if self.kws('SKIP', 'LOCKED'):
                self.i += 2
            self.accept_kw('NOWAIT')
        return lock

    def var_target(self):
        if self.t[0] == 'uvar':
            v = self.t[1]
            self.i += 1
            return ('uvar', v)
        name = self.ident()
        if self.accept_op('.'):
            return ('col', name, self.ident())
        return ('col', None, name)

    def table_refs(self):
        left = self.table_factor()
        while True:
            if self.accept_op(','):
                right = self.table_factor()
                left = ('join', 'inner', left, right, None)
                continue
            kind = None
            if self.kw('INNER', 'CROSS'):
                self.i += 1
                self.expect_kw('JOIN')
                kind = 'inner'
            elif self.kw('LEFT'):
                self.i += 1
                self.accept_kw('OUTER')
                self.expect_kw('JOIN')
                kind = 'left'
            elif self.kw('RIGHT'):
                self.fail('RIGHT JOIN not supported')
            elif self.kw('JOIN', 'STRAIGHT_JOIN'):
                self.i += 1
                kind = 'inner'
            if kind is None:
                return left
            right = self.table_factor()
            on = None
            if self.accept_kw('ON'):
                on = self.expr()
            elif self.kw('USING'):
                self.fail('USING not supported')
            left = ('join', kind, left, right, on)

    def table_factor(self):
        lateral = bool(self.accept_kw('LATERAL'))
        if self.op('('):
            self.i += 1
            if self.kw('SELECT'):
                s = self.select()
                self.expect_op(')')
                self.accept_kw('AS')
                alias = self.ident()
                return ('derived', s, alias, lateral)
            inner = self.table_refs()
            self.expect_op(')')
            return inner
        name = self.ident()
        alias = name
        if self.accept_kw('AS'):
            alias = self.ident()
        elif self.t[0] == 'id':
            alias = self.ident()
        while self.kw('FORCE', 'USE', 'IGNORE') and self.peek()[0] == 'kw' and self.peek()[1] in ('INDEX', 'KEY'):
            self.i += 2
            self.expect_op('(')
            while not self.accept_op(')'):
                self.i += 1
        return ('table', name, alias)

    # ---- statements ------------------------------------------------------------------------
    def statements_until(self, *end_kws):
        out = []
        while not self.kw(*end_kws) and self.t[0] != 'eof':
            st = self.statement()
            if st is not None:
                out.append(st)
        return out

    def end_stmt(self):
        if not self.accept_op(';'):
            if self.t[0] != 'eof':
                self.fail('expected ;')

    def statement(self):
        if self.accept_op(';'):
            return None
        # label: LOOP
        if self.t[0] == 'id' and self.peek()[0] == 'op' and self.peek()[1] == ':':
            label = self.t[1]
            self.i += 2
            if self.accept_kw('LOOP'):
                body = self.statements_until('END')
                self.expect_kw('END')
                self.expect_kw('LOOP')
                if self.t[0] == 'id':
                    self.i += 1
                self.end_stmt()
                return ('loop', label, body)
            self.fail('only labelled LOOP supported')
        if self.kw('BEGIN'):
            self.i += 1
            body = self.statements_until('END')
            self.expect_kw('END')
            self.end_stmt()
            return ('block', body)
        if self.kw('DECLARE'):
            self.i += 1
            if self.kw('CONTINUE', 'EXIT'):
                kind = self.t[1]
                self.i += 1
                self.expect_kw('HANDLER')
                self.expect_kw('FOR')
                self.expect_kw('NOT')
                self.expect_kw('FOUND')
                body = self.statement()
                return ('handler', kind, 'NOT FOUND', body)
            name = self.ident()
            if self.accept_kw('CURSOR'):
                self.expect_kw('FOR')
                s = self.select()
                self.end_stmt()
                return ('cursor', name, s)
            names = [name]
            while self.accept_op(','):
                names.append(self.ident())
            ty = []
            default = None
            while not self.op(';') and self.t[0] != 'eof':
                if self.accept_kw('DEFAULT'):
                    default = self.expr()
                    break
                ty.append(str(self.t[-1]))
                self.i += 1
            self.end_stmt()
            return ('declare', names, ' '.join(ty).upper(), default)
        if self.kw('SET'):
            self.i += 1
            assigns = []
            while True:
                tgt = self.var_target()
                if not self.accept_op('=', ':='):
                    self.fail('expected = in SET')
                assigns.append((tgt, self.expr()))
                if not self.accept_op(','):
                    break
            self.end_stmt()
            return ('set', assigns)
        if self.kw('IF'):
            self.i += 1
            branches = []
            c = self.expr()
            self.expect_kw('THEN')
            body = self.statements_until('ELSEIF', 'ELSE', 'END')
            branches.append((c, body))
            els = []
            while True:
                if self.accept_kw('ELSEIF'):
                    c = self.expr()
                    self.expect_kw('THEN')
                    branches.append((c, self.statements_until('ELSEIF', 'ELSE', 'END')))
                elif self.accept_kw('ELSE'):
                    els = self.statements_until('END')
                else:
                    break
            self.expect_kw('END')
            self.expect_kw('IF')
            self.end_stmt()
            return ('if', branches, els)
        if self.kw('SELECT'):
            s = self.select()
            self.end_stmt()
            return ('selectstmt', s)
        if self.kw('INSERT'):
            return self.insert()
        if self.kw('UPDATE'):
            return self.update()
        if self.kw('DELETE'):
            return self.delete()
        if self.kw('CALL'):
            self.i += 1
            name = self.ident()
            args = self.call_args()
            self.end_stmt()
            return ('callstmt', name, args)
        if self.kws('START', 'TRANSACTION'):
            self.i += 2
            self.end_stmt()
            return ('start',)
        if self.accept_kw('COMMIT'):
            self.end_stmt()
            return ('commit',)
        if self.accept_kw('ROLLBACK'):
            self.end_stmt()
            return ('rollback',)
        if self.accept_kw('SIGNAL'):
            self.expect_kw('SQLSTATE')
            state = self.t[1]
            self.i += 1
            msg = None
            if self.accept_kw('SET'):
                self.ident()
                self.expect_op('=')
                msg = self.t[1]
                self.i += 1
            self.end_stmt()
            return ('signal', state, msg)
        if self.accept_kw('OPEN'):
            n = self.ident()
            self.end_stmt()
            return ('open', n)
        if self.accept_kw('CLOSE'):
            n = self.ident()
            self.end_stmt()
            return ('closec', n)
        if self.accept_kw('FETCH'):
            n = self.ident()
            self.expect_kw('INTO')
            tg = [self.var_target()]
            while self.accept_op(','):
                tg.append(self.var_target())
            self.end_stmt()
            return ('fetch', n, tg)
        if self.accept_kw('LEAVE'):
            n = self.ident()
            self.end_stmt()
            return ('leave', n)
        if self.accept_kw('RETURN'):
            e = self.expr()
            self.end_stmt()
            return ('return', e)
        self.fail('unsupported statement')

    def insert(self):
        self.expect_kw('INSERT')
        ignore = bool(self.accept_kw('IGNORE'))
        self.expect_kw('INTO')
        table = self.ident()
        cols = None
        if self.op('(') and not (self.peek()[0] == 'kw' and self.peek()[1] == 'SELECT'):
            self.i += 1
            cols = [self.ident()]
            while self.accept_op(','):
                cols.append(self.ident())
            self.expect_op(')')
        rows = None
        sel = None
        if self.accept_kw('VALUES'):
            rows = []
            while True:
                self.expect_op('(')
                r = [self.expr()]
                while self.accept_op(','):
                    r.append(self.expr())
                self.expect_op(')')
                rows.append(r)
                if not self.accept_op(','):
                    break
        elif self.kw('SELECT'):
            sel = self.select()
        else:
            self.fail('expected VALUES or SELECT')
        odku = None
        if self.kws('ON', 'DUPLICATE', 'KEY', 'UPDATE'):
            self.i += 4
            odku = []
            while True:
                tgt = self.var_target()
                self.expect_op('=')
                odku.append((tgt, self.expr()))
                if not self.accept_op(','):
                    break
        self.end_stmt()
        return ('insert', table, cols, rows, sel, odku, ignore)

    def update(self):
        self.expect_kw('UPDATE')
        refs = self.table_refs()
        self.expect_kw('SET')
        assigns = []
        while True:
            tgt = self.var_target()
            self.expect_op('=')
            assigns.append((tgt, self.expr()))
            if not self.accept_op(','):
                break
        where = None
        if self.accept_kw('WHERE'):
            where = self.expr()
        limit = None
        if self.accept_kw('LIMIT'):
            limit = self.expr()
        self.end_stmt()
        return ('update', refs, assigns, where, limit)

    def delete(self):
        self.expect_kw('DELETE')
        self.expect_kw('FROM')
        table = self.ident()
        alias = table
        refs = ('table', table, alias)
        where = None
        if self.accept_kw('WHERE'):
            where = self.expr()
        order = []
        if self.kws('ORDER', 'BY'):
            self.i += 2
            while True:
                e = self.expr()
                desc = bool(self.accept_kw('DESC'))
                if not desc:
                    self.accept_kw('ASC')
                order.append((e, desc))
                if not self.accept_op(','):
                    break
        limit = None
        if self.accept_kw('LIMIT'):
            limit = self.expr()
        self.end_stmt()
        return ('delete', table, where, order, limit)


def parse_statements(text):
    p = Parser(text)
    out = []
    while p.t[0] != 'eof':
        st = p.statement()
        if st is not None:
            out.append(st)
    return out


ROUTINE_RE = re.compile(
    r'CREATE\s+(?:DEFINER\s*=\s*\S+\s+)?(PROCEDURE|TRIGGER|FUNCTION)\s+`?(\w+)`?(.*?)(?=\$\$)', re.S | re.I)
DROP_RE = re.compile(r'DROP\s+(PROCEDURE|TRIGGER|FUNCTION)\s+(?:IF\s+EXISTS\s+)?`?(\w+)`?', re.I)


def parse_routine(kind, name, rest):
    """rest = text after the routine name up to the delimiter."""
    kind = kind.upper()
    p = Parser(rest)
    r = {'kind': kind, 'name': name, 'text': rest}
    if kind in ('PROCEDURE', 'FUNCTION'):
        p.expect_op('(')
        params = []
        while not p.op(')'):
            mode = 'IN'
            if p.kw('IN'):
                p.i += 1
            elif p.t[0] == 'id' and p.t[1].upper() in ('OUT', 'INOUT'):
                mode = p.t[1].upper()
                p.i += 1
            pname = p.ident()
            depth = 0
            while not ((p.op(',') or p.op(')')) and depth == 0):
                if p.op('('):
                    depth += 1
                if p.op(')'):
                    depth -= 1
                p.i += 1
            params.append((mode, pname))
            p.accept_op(',')
        p.expect_op(')')
        r['params'] = params
        if kind == 'FUNCTION':
            # RETURNS type [characteristics] body
            while not p.kw('RETURN', 'BEGIN') and p.t[0] != 'eof':
                p.i += 1
    else:
        # BEFORE|AFTER INSERT|UPDATE|DELETE ON table FOR EACH ROW
        timing = p.ident().upper()
        ev = p.t[1] if p.t[0] == 'kw' else p.ident().upper()
        if p.t[0] == 'kw':
            p.i += 1
        p.expect_kw('ON')
        table = p.ident()
        p.expect_kw('FOR')
        p.ident()
        p.ident()
        r.update({'timing': timing, 'event': ev.upper(), 'table': table})
    body = p.statement()
    r['body'] = [body] if body[0] != 'block' else body[1]
    if p.t[0] != 'eof':
        p.fail(f'trailing tokens after routine {name}')
    return r


def scan_routines(text):
    """Yield ('create'|'drop', kind, name, rest) in file order."""
    events = []
    for m in ROUTINE_RE.finditer(text):
        events.append((m.start(), 'create', m.group(1).upper(), m.group(2), m.group(3)))
    for m in DROP_RE.finditer(text):
        events.append((m.start(), 'drop', m.group(1).upper(), m.group(2), None))
    events.sort()
    return [e[1:] for e in events]
