"""Shared driver for the BMC-style SQL properties: prefix, sequence farm, replay, evidence."""
import itertools
import json
import os
import time

import z3

from ..common import HarnessError
from . import bmc, catalog, model, oracle
from .interp import GLOBAL_S as S
from .interp import is_sym


def encode_sources(R):
    """Record every routine / Python function the scenarios execute."""
    for name in ('jobs_after_update', 'jobs_before_insert', 'commit_batch_update', 'cancel_job_group', 'cancel_batch',
                 'schedule_job', 'mark_job_creating', 'mark_job_started', 'mark_job_complete', 'mark_job_group_complete',
                 'unschedule_job', 'deactivate_instance', 'activate_instance', 'add_attempt', 'is_job_cancelled',
                 'is_job_group_cancelled', 'attempts_before_update', 'attempts_after_update', 'instances_before_update'):
        r = catalog.routine(name)
        R.encode(f"{r['file']}:{r['line']} {name}", r['rest'])
    from . import driverq
    driverq.encode(R)
    import ast
    from .. import loader
    for rel, names in (('batch/batch/front_end/front_end.py', ['create_batch', '_create_batch', '_create_batch_update',
                                                               'create_update', 'create_job_groups', '_create_job_groups',
                                                               '_create_job_group', '_create_jobs', 'commit_update',
                                                               '_commit_update']),
                       ('batch/batch/batch.py', ['cancel_job_group_in_db'])):
        text = loader.read(rel)
        tree = ast.parse(text)
        for n in ast.walk(tree):
            if isinstance(n, (ast.FunctionDef, ast.AsyncFunctionDef)) and n.name in names:
                R.encode(f'{rel}:{n.lineno} {n.name}', ast.get_source_segment(text, n))


def build_prefix(sizes, n1, g1, values=None, commit=True, prefix_ops=()):
    sc = bmc.Scenario(sizes, bmc.Inputs(values), n1=n1, g1=g1)
    sc.setup_instances()
    sc.prefix_batch(commit=commit)
    for i, kind in enumerate(prefix_ops):
        sc.apply(kind, f'p{i}')
    sc.prev = None
    return sc


def concrete_replay(sizes, n1, g1, seq, vals, asserts, commit=True, prefix_ops=()):
    """Re-run prefix + sequence concretely with the model's values on the real Python + concrete emulator.
    Returns the list of violated assertion names."""
    sc = build_prefix(sizes, n1, g1, values=vals, commit=commit, prefix_ops=prefix_ops)
    bad, bad_relaxed = [], []

    def collect(label):
        for a in asserts(sc):
            n, e = a[0], a[1]
            e2 = a[2] if len(a) > 2 and a[2] is not None else e
            for ee, lst in ((e, bad), (e2, bad_relaxed)):
                if is_sym(ee):
                    raise HarnessError(f'replay produced a symbolic assertion: {n}')
                if not ee:
                    lst.append(f'{label}: {n}')
    collect('prefix')
    for idx, kind in enumerate(seq):
        sc.apply(kind, idx)
        collect(f'after {idx}:{kind}')
    sc.bad_relaxed = bad_relaxed
    return bad, sc


def run_bmc_property(R, pid, sizes, n1, g1, alphabet, depth, asserts, classify, workers=12, commit=True,
                     seq_filter=None, timeout_ms=180000, extra_seqs=(), prefix_ops=()):
    encode_sources(R)
    t0 = time.time()
    sc = build_prefix(sizes, n1, g1, commit=commit, prefix_ops=prefix_ops)
    sc.record('prefix', asserts(sc))
    build_s = time.time() - t0
    R.bounds.setdefault('passes', []).append({
        'sizes': sizes.as_dict(), 'jobs_in_update_1': n1, 'job_groups_in_update_1': g1, 'bmc_depth': depth, 'alphabet': list(alphabet),
        'named_scenarios': [list(x) for x in extra_seqs], 'update_1_committed_in_prefix': commit,
        'operations_appended_to_prefix': list(prefix_ops)})
    R.bounds['shape'] = ('group parents, job->group, parents among the two previous jobs, always_run, cores, tokens, times, '
                         'instance states: symbolic')
    # base: the prefix itself (batch creation from the empty database) satisfies the assertions
    r0 = bmc.reachable(sc)
    if r0 != 'sat':
        raise HarnessError(f'prefix assumptions not satisfiable ({r0}) — vacuous')
    r, vals, which, dt = bmc.solve_violation(sc, timeout_ms)
    handle(R, pid, sizes, n1, g1, (), 'sat-new' if r == 'sat' else r, vals, which, dt, asserts, classify, commit, prefix_ops)
    seqs = [s for k in range(1, depth + 1) for s in itertools.product(alphabet, repeat=k)]
    if seq_filter is not None:
        seqs = [s for s in seqs if seq_filter(s)]
    # only sequences of the full depth need a query of their own: every prefix of a sequence is asserted inside it
    full = [s for s in seqs if len(s) == depth] + [tuple(x) for x in extra_seqs]
    n_states = 1
    n_trans = 0
    unreachable = 0
    for seq, r, vals, which, dt in bmc.run_sequences(sc, full, asserts, workers=workers, timeout_ms=timeout_ms):
        if r == 'harness-error':
            raise HarnessError(f'sequence {seq}: {which[0][-600:]}')
        if r in ('unreachable',):
            unreachable += 1
            R.ob(f'{" ; ".join(seq)}', 'discharged', dt, {'note': 'assumptions unsatisfiable: no such history'}, nontrivial=False)
            continue
        n_states += len(seq)
        n_trans += len(seq)
        handle(R, pid, sizes, n1, g1, seq, r, vals, which, dt, asserts, classify, commit, prefix_ops)
    R.states += n_states
    R.transitions += n_trans
    R.sample({'layer': 'bmc', 'prefix_build_s': round(build_s, 1), 'sequences': len(full), 'unreachable_sequences': unreachable,
              'example_sequence': list(full[len(full) // 2]) if full else None,
              'named_deep_scenarios': [list(x) for x in extra_seqs]})


def handle(R, pid, sizes, n1, g1, seq, r, vals, which, dt, asserts, classify, commit, prefix_ops=()):
    name = ' ; '.join(seq) if seq else 'prefix (batch creation from the empty database)'
    if prefix_ops:
        name = '[' + ' ; '.join(prefix_ops) + '] ' + name
    if r == 'unsat':
        R.ob(name, 'discharged', dt, nontrivial=True)
        return
    if r not in ('sat-new', 'sat-known'):
        R.ob(name, 'not_discharged', dt, {'solver': r})
        return
    clean = {k: v for k, v in vals.items() if '!' not in k or True}
    bad, csc = concrete_replay(sizes, n1, g1, seq, clean, asserts, commit, prefix_ops)
    R.traces_validated += 1
    if not bad:
        raise HarnessError(f'counterexample for [{name}] does not reproduce on the concrete run (solver said {which[:3]})')
    if r == 'sat-new' and not csc.bad_relaxed and any(len(a) > 2 for a in asserts(csc)):
        raise HarnessError(f'counterexample for [{name}] violates only the strict oracle concretely, solver said relaxed too')
    cls = classify(bad, clean, csc, r == 'sat-known')
    what = f'history [{name}] violates {bad[0]}' + (f' (+{len(bad) - 1} more)' if len(bad) > 1 else '')
    st = R.finding(cls, what, {'kind': 'bmc', 'sizes': sizes.as_dict(), 'n1': n1, 'g1': g1, 'seq': list(seq), 'values': clean,
                               'commit': commit, 'violated': bad, 'prefix_ops': list(prefix_ops),
                               'final_state': model.dump(csc.db, ['jobs', 'batch_updates', 'job_groups', 'job_groups_cancelled',
                                                                  'user_inst_coll_resources', 'attempts'])})
    R.ob(name, st, dt, {'violated': bad[:4]}, nontrivial=True)


def replay_file(path, asserts):
    d = json.load(open(path))['replay']
    if d.get('kind') != 'bmc':
        print('not a BMC replay:', d.get('kind'), d.get('witness'))
        return 1
    sizes = model.Sizes(**d['sizes'])
    bad, sc = concrete_replay(sizes, d['n1'], d['g1'], tuple(d['seq']), d['values'], asserts, d.get('commit', True),
                              tuple(d.get('prefix_ops', ())))
    print('sequence:', d['seq'])
    print('violated:', bad)
    return 1 if bad else 0


def trigger_rows(db, table):
    return db.t[table].rows


def sqlite_validation(R, sizes, n1, g1, seq=('schedule', 'cancel_group', 'complete', 'u2_create', 'u2_jobs'), models=3):
    """Translator validation of the relational core: concretise the symbolic state reached after `seq` under a few
    solver-chosen models and compare SELECT results between the concrete interpreter and sqlite3."""
    import z3
    from . import sqlite_diff
    t0 = time.time()
    sc = build_prefix(sizes, n1, g1)
    for idx, kind in enumerate(seq):
        sc.apply(kind, idx)
    s = z3.Solver()
    s.add(*sc.inp.constraints)
    s.add(*[c for c in sc.db.env_constraints if is_sym(c)])
    if is_sym(sc.db.oob):
        s.add(z3.Not(sc.db.oob))
    cells = 0
    n = 0
    for _ in range(models):
        if str(s.check()) != 'sat':
            break
        m = s.model()
        cells += sqlite_diff.compare(model.concretize(sc.db, m))
        n += 1
        blk = [v != m.eval(v, model_completion=True) for name, v in sc.inp.vars.items()
               if ('grp' in name or 'par_' in name or name.endswith('_job') or 'ar_' in name) and not z3.is_bool(v)][:8]
        blk += [v != m.eval(v, model_completion=True) for name, v in sc.inp.vars.items() if z3.is_bool(v)][:4]
        if not blk:
            break
        s.add(z3.Or(*blk))
    if n == 0:
        raise HarnessError('sqlite validation: no model')
    R.validation_points += cells
    R.ob(f'sqlsym relational core agrees with sqlite3 on {len(sqlite_diff.QUERIES)} queries over {n} solver-chosen states',
         'discharged', time.time() - t0, {'cells_compared': cells}, nontrivial=True)
