"""Bounded model checking of the batch service's database protocol with the real code.

A scenario = a prefix of real front-end operations from the EMPTY database whose *shape* (group tree,
job -> group, parents, always-run flags, cores, tokens, times) is symbolic, followed by k operations whose
*kinds* are fixed per query and whose arguments are symbolic.  After every operation a list of named
assertions (built by the property module from vt.sqlsym.oracle) is recorded; one solver query per
operation-kind sequence asks for any input/shape/argument assignment violating any assertion at any step.

The same scenario code runs in two modes through `Inputs`: symbolic (z3 variables) and concrete
(values taken from a solver model) — the latter is the replay on the real Python code and the concrete
MySQL emulator.
"""
import os
import time

import z3

from .. import glue
from ..common import HarnessError
from ..glue import SBool, SInt
from . import batchops as bo
from . import model, ops, oracle
from .interp import GLOBAL_S as S
from .interp import NULL, V, b_and, b_not, b_or, is_sym, ite, truth


class Inputs:
    """Named inputs: symbolic z3 variables, or concrete values from a model (replay)."""

    def __init__(self, values=None):
        self.values = values  # None => symbolic
        self.constraints = []
        self.vars = {}

    @property
    def concrete(self):
        return self.values is not None

    def int(self, name, lo=None, hi=None, options=None):
        if self.concrete:
            v = self.values.get(name)
            if v is None:
                v = options[0] if options else (lo if lo is not None else 0)
            return v
        x = z3.Int(name)
        self.vars[name] = x
        if options is not None:
            self.constraints.append(z3.Or(*[x == o for o in options]))
        if lo is not None:
            self.constraints.append(x >= lo)
        if hi is not None:
            self.constraints.append(x <= hi)
        return x

    def bool(self, name):
        if self.concrete:
            return bool(self.values.get(name, False))
        x = z3.Bool(name)
        self.vars[name] = x
        return x

    def choose(self, name, options):
        """inside a glue run: concrete option per path; symbolic overall"""
        options = list(options)
        if self.concrete:
            return options[self.values.get(name, 0)]
        if name not in self.vars:
            x = z3.Int(name)
            self.vars[name] = x
            self.constraints.append(z3.And(x >= 0, x < len(options)))
        return glue.choose(name, options)

    def sint(self, name, **k):
        x = self.int(name, **k)
        return x if self.concrete else SInt(x, S)

    def sbool(self, name):
        x = self.bool(name)
        return x if self.concrete else SBool(x)


def ite_b(c, a, b):
    """boolean if-then-else over possibly concrete operands"""
    return b_or(b_and(c, a), b_and(b_not(c), b))


def code(s):
    return S.code(s)


class Scenario:
    """Builds the world and applies operations.  Property modules subclass or parametrise it."""

    def __init__(self, sizes, inputs, n1=None, g1=None):
        self.sizes = sizes
        self.inp = inputs
        db = model.empty_db(sizes)
        if inputs.concrete:
            vals = inputs.values
            db.concrete_env = lambda name, arg: vals.get(name, 0 if not isinstance(arg, tuple) or arg[0] is None else arg[0])
        self.w = bo.World(db, inputs.constraints)
        self.w.constraints = inputs.constraints  # shared list: new input constraints become path assumptions
        self.steps = []         # (label, [(assertion name, expr)])
        self.assume = []        # enabledness assumptions of the operations applied
        self.n1 = n1 if n1 is not None else sizes.J
        self.g1 = g1 if g1 is not None else sizes.G - 1
        self.opn = 0
        self.outcomes = []
        self.prev = None
        self.snapshots = []
        self.sent = set()
        self.is_repeat = False
        self.last_kind = None
        self.last_result = None

    @property
    def db(self):
        return self.w.db

    def begin(self, label):
        self.opn += 1
        self.db.begin_op(f'{self.opn}{label}')
        return f'{self.opn}{label}'

    # ---- direct set-up of instances (Instance.create is two plain INSERTs) -----------------------
    def setup_instances(self):
        db = self.db
        inp = self.inp
        for k in db.t['inst_colls'].rows:
            r = db.t['inst_colls'].rows[k]
            r.present = True
            r.vals['is_pool'] = V(ite(inp.bool(f'is_pool_{S.name(k[0])}'), 1, 0))
        for k in db.t['instances'].rows:
            nm = S.name(k[0])
            r = db.t['instances'].rows[k]
            r.present = True
            st = inp.int(f'{nm}_state', options=[code('pending'), code('active'), code('inactive')])
            cores = inp.int(f'{nm}_cores', lo=1)
            r.vals['state'] = V(st)
            r.vals['cores_mcpu'] = V(cores)
            r.vals['inst_coll'] = V(inp.int(f'{nm}_ic', options=[kk[0] for kk in db.t['inst_colls'].rows]))
            for c in ('time_deactivated', 'time_activated', 'activation_token', 'ip_address'):
                r.vals[c] = NULL
            r.vals['token'] = V(0)
            f = db.t['instances_free_cores_mcpu'].rows[k]
            f.present = True
            f.vals['free_cores_mcpu'] = V(cores)

    # ---- prefix: batch with update 1 --------------------------------------------------------------
    def ics(self):
        return [S.name(k[0]) for k in self.db.t['inst_colls'].rows]

    def job_specs(self, first_rel, n, first_abs, tag, group_options, update_id):
        """n job specs with symbolic group/parents/always_run; parents among earlier jobs of the batch."""
        inp = self.inp
        specs, res = [], []
        for r in range(n):
            rel = first_rel + r
            absj = first_abs + r
            grp = inp.choose(f'{tag}_grp_j{absj}', group_options)
            parents_abs = []
            parents_rel = []
            for p in range(max(1, absj - 2), absj):
                if inp.choose(f'{tag}_par_{absj}_{p}', [False, True]):
                    # a parent inside the same update may be named by its in-update index or (legacy `parent_ids` /
                    # `absolute_parent_ids`, still accepted by the front end) by its absolute id
                    if p >= first_abs and inp.choose(f'{tag}_parkind_{absj}_{p}', ['in_update', 'absolute']) == 'in_update':
                        parents_rel.append(p - first_abs + 1)
                    else:
                        parents_abs.append(p)
            ar = inp.sbool(f'{tag}_ar_j{absj}')
            specs.append(bo.job_spec(rel, parents=parents_abs, in_update_parents=parents_rel, group=grp, always_run=ar))
            ic = inp.choose(f'{tag}_ic_j{absj}', self.ics()) if len(self.ics()) > 1 else self.ics()[0]
            res.append((ic, inp.sint(f'{tag}_cores_j{absj}', lo=1)))
        return specs, res

    def run_glue(self, label, make):
        lab = self.begin(label)
        outs = self.w.run(make, lab)
        self.outcomes.append((lab, outs))
        return outs

    def prefix_batch(self, commit=True):
        """create batch (+update 1), job groups with symbolic parents, one bunch with all jobs, commit."""
        w, inp = self.w, self.inp
        fe, _ = bo.front_end()
        import inspect
        self.begin('create_batch')
        outs = w.create_batch('tokA', n_jobs=self.n1, n_job_groups=self.g1)
        self.outcomes.append(('create_batch', outs))
        if self.g1 > 0:
            h = inspect.unwrap(fe.create_job_groups)

            def make(app):
                specs = [bo.group_spec(g, 0 if g == 1 else inp.choose(f'parent_g{g}', list(range(0, g))))
                         for g in range(1, self.g1 + 1)]
                req = w.request({'batch_id': '1', 'update_id': '1'}, specs)
                req.app = app
                return h(req, dict(w.userdata))
            self.run_glue('create_job_groups', make)
        if self.n1 > 0:
            def make(app):
                specs, res = self.job_specs(1, self.n1, 1, 'u1', list(range(0, self.g1 + 1)), 1)
                w.job_resources = res
                return fe._create_jobs(dict(w.userdata), specs, 1, 1, app)
            self.run_glue('create_jobs', make)
        self.sent = {'create_batch', 'jobs1'}
        if commit:
            self.begin('commit')
            self.outcomes.append(('commit1', w.commit_update(1)))
            self.sent.add('commit1')

    # ---- operation alphabet ------------------------------------------------------------------------
    def _job(self, tag):
        return self.inp.int(f'{tag}_job', options=self.sizes.dom('job'))

    def _att(self, tag):
        return self.inp.int(f'{tag}_att', options=self.sizes.dom('attempt'))

    def _inst(self, tag):
        return self.inp.int(f'{tag}_inst', options=self.sizes.dom('inst'))

    def _attempt_facts(self, j, a):
        """(present, instance_name V, end_time V) of attempt (j, a) for symbolic j, a."""
        pres, inst = False, NULL
        from .interp import v_ite
        for k, r in self.db.t['attempts'].rows.items():
            m = b_and(k[1] == j if not is_sym(j) else j == k[1], k[2] == a if not is_sym(a) else a == k[2])
            pres = b_or(pres, b_and(m, r.present))
            inst = v_ite(b_and(m, r.present), r.vals['instance_name'], inst)
        return pres, inst

    def _inst_state(self, i):
        out = 0
        for k, r in self.db.t['instances'].rows.items():
            out = ite(oracle.i_eq(i, k[0]), r.vals['state'].v, out)
        return out

    def _assume(self, c):
        if c is True:
            return
        if self.inp.concrete:
            if c is False:
                raise HarnessError('replay: an enabledness assumption does not hold concretely')
            return
        self.inp.constraints.append(c)

    def _job_row(self, j):
        """facts of job with symbolic id j, merged over rows"""
        out = {'present': False}
        fs = oracle.jobs(self.db)
        sel = lambda attr: None
        return fs

    def selected_earlier(self, j, kind='any'):
        """The scheduler (or the job-private creator) read its candidate rows at some earlier point of this history
        — possibly before other operations were applied — so enabledness is evaluated on any earlier snapshot."""
        out = self.scheduler_selects(j, kind=kind)
        for snap in self.snapshots:
            out = b_or(out, self.scheduler_selects(j, snap, kind=kind))
        return out

    def scheduler_selects(self, j, db=None, kind='any', having=True):
        """The job the scheduler may hand to schedule_job / job-private creating: the candidate queries of
        PoolScheduler.schedule_loop_body, extracted from pool.py and evaluated by sqlsym (vt/sqlsym/driverq.py)."""
        from . import driverq
        db = db if db is not None else self.db
        out = False
        for k in db.t['jobs'].rows:
            # a job of a pool is handed out by the pool scheduler, a job of the job-private collection by
            # JobPrivateInstanceManager.create_instances_loop_body - each has its own candidate queries
            pool = b_and(driverq.job_in_pool(db, k[1]), driverq.scheduler_selects(db, k[1]))
            priv = b_and(b_not(driverq.job_in_pool(db, k[1])), driverq.jobprivate_selects(db, k[1], having=having))
            sel = pool if kind == 'pool' else priv if kind == 'jp' else b_or(pool, priv)
            out = b_or(out, b_and(oracle.i_eq(j, k[1]), sel))
        return out

    def op_schedule(self, tag):
        j, a, i = self._job(tag), self._att(tag), self._inst(tag)
        pres, _ = self._attempt_facts(j, a)
        # pool scheduler: a selected job with a fresh random attempt id; job-private instances: once the instance has
        # activated, schedule_job is called for the Creating job with the attempt made by mark_job_creating
        creating_same = False
        for f in oracle.jobs(self.db):
            creating_same = b_or(creating_same, b_and(oracle.i_eq(j, f.j), f.present, f.in_state('Creating'),
                                                      b_not(f.attempt_id.n), oracle.i_eq(f.attempt_id.v, a)))
        # ... or the worker's report about this very attempt reached the database before the driver's CALL schedule_job
        # (the driver POSTs the job to the worker first): see op_early_started / op_early_complete
        early_same = False
        for (j2, a2, i2) in getattr(self, 'early', []):
            early_same = b_or(early_same, b_and(oracle.i_eq(j, j2), oracle.i_eq(a, a2), oracle.i_eq(i, i2)))
        self._assume(b_or(b_and(self.selected_earlier(j, 'pool'), b_not(pres)), creating_same, early_same))
        # the scheduler only places jobs on instances it holds as active (schedule_job asserts it); the database row may
        # meanwhile have been deactivated, but it cannot be pending again
        st = self._inst_state(i)
        self._assume(b_not(oracle.i_eq(st, code('pending'))))
        self.last_args = {'job': j, 'att': a, 'inst': i}
        self.begin('schedule_job')
        return self.w.call('schedule_job', [1, V(j), V(a), V(i)])

    def op_creating(self, tag):
        j, a, i = self._job(tag), self._att(tag), self._inst(tag)
        pres, _ = self._attempt_facts(j, a)
        self._assume(b_and(self.selected_earlier(j, 'jp'), b_not(pres)))
        t = self.inp.int(f'{tag}_time')
        self.begin('mark_job_creating')
        return self.w.call('mark_job_creating', [1, V(j), V(a), V(i), V(t)])

    def _existing_attempt(self, tag):
        j, a, i = self._job(tag), self._att(tag), self._inst(tag)
        pres, inst = self._attempt_facts(j, a)
        # worker/driver messages are about attempts the driver created, and name that attempt's instance
        self._assume(b_and(pres, b_not(inst.n), oracle.i_eq(inst.v, i)))
        return j, a, i

    def op_started(self, tag):
        j, a, i = self._existing_attempt(tag)
        t = self.inp.int(f'{tag}_time')
        self.begin('mark_job_started')
        return self.w.call('mark_job_started', [1, V(j), V(a), V(i), V(t)])

    def op_complete(self, tag):
        j, a, i = self._existing_attempt(tag)
        st = self.inp.int(f'{tag}_new_state', options=oracle.TERMINAL)
        t0, t1, ts = self.inp.int(f'{tag}_start'), self.inp.int(f'{tag}_end'), self.inp.int(f'{tag}_ts')
        reason = self.inp.int(f'{tag}_reason', options=[code(r) for r in model.REASONS])
        self.last_args = {'job': j, 'att': a, 'inst': i, 'new_state': st}
        self.begin('mark_job_complete')
        return self.w.call('mark_job_complete', [1, V(j), V(a), V(i), V(st), NULL, V(t0), V(t1), V(reason), V(ts)])

    def _early(self, tag):
        """a worker report that overtakes the driver: the scheduler selected the job and POSTed it to an (active or
        meanwhile deactivated) instance with a fresh attempt id, and the worker's job_started / job_complete for that attempt is
        processed before the driver's CALL schedule_job"""
        j, a, i = self._job(tag), self._att(tag), self._inst(tag)
        pres, _ = self._attempt_facts(j, a)
        self._assume(b_and(self.selected_earlier(j, 'pool'), b_not(pres)))
        self._assume(b_not(oracle.i_eq(self._inst_state(i), code('pending'))))
        if not hasattr(self, 'early'):
            self.early = []
        self.early.append((j, a, i))
        return j, a, i

    def op_early_started(self, tag):
        j, a, i = self._early(tag)
        t = self.inp.int(f'{tag}_time')
        self.last_args = {'job': j, 'att': a, 'inst': i}
        self.begin('mark_job_started')
        return self.w.call('mark_job_started', [1, V(j), V(a), V(i), V(t)])

    def op_early_complete(self, tag):
        j, a, i = self._early(tag)
        st = self.inp.int(f'{tag}_new_state', options=oracle.TERMINAL)
        t0, t1, ts = self.inp.int(f'{tag}_start'), self.inp.int(f'{tag}_end'), self.inp.int(f'{tag}_ts')
        reason = self.inp.int(f'{tag}_reason', options=[code(r) for r in model.REASONS])
        self.last_args = {'job': j, 'att': a, 'inst': i, 'new_state': st}
        self.begin('mark_job_complete')
        return self.w.call('mark_job_complete', [1, V(j), V(a), V(i), V(st), NULL, V(t0), V(t1), V(reason), V(ts)])

    def op_unschedule(self, tag):
        j, a, i = self._existing_attempt(tag)
        t1 = self.inp.int(f'{tag}_end')
        reason = self.inp.int(f'{tag}_reason', options=[code(r) for r in model.REASONS])
        self.last_args = {'job': j, 'att': a, 'inst': i}
        self.begin('unschedule_job')
        return self.w.call('unschedule_job', [1, V(j), V(a), V(i), V(t1), V(reason)])

    def canceller_selects(self, j, db=None):
        """canceller.py cancel_cancelled_ready_jobs_loop_body's candidate queries, extracted and evaluated by sqlsym."""
        from . import driverq
        db = db if db is not None else self.db
        out = False
        for k in db.t['jobs'].rows:
            out = b_or(out, b_and(oracle.i_eq(j, k[1]), driverq.canceller_selects(db, k[1])))
        return out

    def op_cancel_ready(self, tag):
        j = self._job(tag)
        sel = self.canceller_selects(j)
        for snap in self.snapshots:
            sel = b_or(sel, self.canceller_selects(j, snap))
        self._assume(sel)
        ts = self.inp.int(f'{tag}_ts')
        self.last_args = {'job': j}
        self.begin('cancel_ready')
        return self.w.call('mark_job_complete', [1, V(j), NULL, NULL, V(code('Cancelled')), NULL, NULL, NULL, V(code('cancelled')), V(ts)])

    def op_deactivate(self, tag):
        i = self._inst(tag)
        ts = self.inp.int(f'{tag}_ts')
        reason = self.inp.int(f'{tag}_reason', options=[code(r) for r in model.REASONS])
        self.begin('deactivate_instance')
        return self.w.call('deactivate_instance', [V(i), V(reason), V(ts)])

    def op_activate(self, tag):
        i = self._inst(tag)
        ts = self.inp.int(f'{tag}_ts')
        self.begin('activate_instance')
        return self.w.call('activate_instance', [V(i), V(0), V(ts)])

    def op_cancel_group(self, tag):
        g = self.inp.sint(f'{tag}_group', options=self.sizes.dom('group'))
        self.last_args = {'group': g if self.inp.concrete else g.e}
        _, bb = bo.front_end()

        def make(app):
            return bb.cancel_job_group_in_db(app['db'], 1, g)
        return self.run_glue('cancel_job_group', make)

    def later_jobs(self, k):
        """number of jobs reserved by update k >= 2 (with three updates: one job in update 2, the rest in update 3)"""
        room = self.sizes.J - self.n1
        if self.sizes.U >= 3 and room >= 2:
            return {2: 1, 3: room - 1}.get(k, 0)
        return room if k == 2 else 0

    def later_first(self, k):
        return self.n1 + 1 + sum(self.later_jobs(x) for x in range(2, k))

    def _update_create(self, k):
        n = self.later_jobs(k)
        if n <= 0:
            raise HarnessError(f'scenario has no room for update {k}')
        self.begin(f'create_update{k}')
        ng = (self.sizes.G - 1 - self.g1) if k == 2 else 0
        outs = self.w.create_update({2: 'tokB', 3: 'tokC'}[k], n, ng)
        self.outcomes.append((f'create_update{k}', outs))
        return outs

    def _update_jobs(self, k):
        n = self.later_jobs(k)
        fe, _ = bo.front_end()

        def make(app):
            specs, res = self.job_specs(1, n, self.later_first(k), f'u{k}', list(range(0, self.sizes.G)), k)
            self.w.job_resources = res
            return fe._create_jobs(dict(self.w.userdata), specs, 1, k, app)
        return self.run_glue(f'create_jobs{k}', make)

    def _update_commit(self, k):
        self.begin(f'commit{k}')
        outs = self.w.commit_update(k)
        self.outcomes.append((f'commit{k}', outs))
        return outs

    def op_update2_create(self, tag):
        return self._update_create(2)

    def op_update2_jobs(self, tag):
        return self._update_jobs(2)

    def op_update3_create(self, tag):
        return self._update_create(3)

    def op_update3_jobs(self, tag):
        return self._update_jobs(3)

    def op_update3_commit(self, tag):
        return self._update_commit(3)

    def _update2_groups(self, rels, label):
        """submit the job groups with in-update ids `rels` (1-based) of update 2 as one bunch; each parent is a symbolic
        choice between an absolute earlier group and (for rel > 1) the in-update reference to an earlier new group"""
        ng = self.sizes.G - 1 - self.g1
        if ng < max(rels):
            raise HarnessError('scenario has no room for these job groups in the second update')
        fe, _ = bo.front_end()
        import inspect
        h = inspect.unwrap(fe.create_job_groups)
        inp, w = self.inp, self.w

        def make(app):
            specs = []
            for rel in rels:
                g = self.g1 + rel
                sp = {'job_group_id': rel}
                kinds = ['absolute'] + (['in_update'] if rel > 1 else [])
                kind = inp.choose(f'u2_parent_kind_g{g}', kinds) if len(kinds) > 1 else 'absolute'
                if kind == 'absolute':
                    sp['absolute_parent_id'] = inp.choose(f'u2_parent_g{g}', list(range(0, self.g1 + 1)))
                else:
                    sp['in_update_parent_id'] = inp.choose(f'u2_inparent_g{g}', list(range(1, rel)))
                specs.append(sp)
            req = w.request({'batch_id': '1', 'update_id': '2'}, specs)
            req.app = app
            return h(req, dict(w.userdata))
        return self.run_glue(label, make)

    def op_update2_groups(self, tag):
        return self._update2_groups(list(range(1, self.sizes.G - self.g1)), 'create_job_groups2')

    def op_update2_group1(self, tag):
        return self._update2_groups([1], 'create_job_groups2a')

    def op_update2_group2(self, tag):
        return self._update2_groups([2], 'create_job_groups2b')

    def _driver_main_fn(self, name, label):
        from .. import loader
        loader.install()
        glue.pymysql_shim()
        from batch.driver import main as dm

        def make(app):
            return getattr(dm, name)(app['db'])
        return self.run_glue(label, make)

    def op_cleanup_staging(self, tag):
        return self._driver_main_fn('delete_committed_job_groups_inst_coll_staging_records', 'cleanup_staging')

    def op_cleanup_cancellable(self, tag):
        return self._driver_main_fn('delete_prev_cancelled_job_group_cancellable_resources_records', 'cleanup_cancellable')

    def op_dup_create_batch(self, tag):
        self.begin('create_batch_again')
        outs = self.w.create_batch('tokA', n_jobs=self.n1, n_job_groups=self.g1)
        self.outcomes.append(('create_batch_again', outs))
        return outs

    def op_dup_jobs1(self, tag):
        fe, _ = bo.front_end()
        w = self.w

        def make(app):
            specs, res = self.job_specs(1, self.n1, 1, 'u1', list(range(0, self.g1 + 1)), 1)
            w.job_resources = res
            return fe._create_jobs(dict(w.userdata), specs, 1, 1, app)
        return self.run_glue('create_jobs_again', make)

    def op_commit1(self, tag):
        self.begin('commit1')
        outs = self.w.commit_update(1)
        self.outcomes.append(('commit1', outs))
        return outs

    def op_update2_commit(self, tag):
        return self._update_commit(2)

    OPS = {
        'schedule': op_schedule, 'creating': op_creating, 'started': op_started, 'complete': op_complete,
        'unschedule': op_unschedule, 'deactivate': op_deactivate, 'activate': op_activate, 'cancel_group': op_cancel_group,
        'u2_create': op_update2_create, 'u2_jobs': op_update2_jobs, 'u2_commit': op_update2_commit, 'u2_groups': op_update2_groups, 'u2_group1': op_update2_group1, 'u2_group2': op_update2_group2, 'u3_create': op_update3_create, 'u3_jobs': op_update3_jobs,
        'u3_commit': op_update3_commit, 'dup_create_batch': op_dup_create_batch,
        'dup_jobs1': op_dup_jobs1, 'commit1': op_commit1, 'cancel_ready': op_cancel_ready, 'cleanup_staging': op_cleanup_staging,
        'cleanup_cancellable': op_cleanup_cancellable, 'early_started': op_early_started, 'early_complete': op_early_complete,
    }

    def apply(self, kind, idx):
        self.prev = self.db.copy()
        self.snapshots.append(self.prev)
        self.last_kind = kind
        self.last_args = {}
        key = {'dup_create_batch': 'create_batch', 'dup_jobs1': 'jobs1'}.get(kind, kind)
        self.is_repeat = key in self.sent and kind in ('dup_create_batch', 'dup_jobs1', 'u2_create', 'u2_jobs', 'u2_commit',
                                                       'commit1', 'u2_groups', 'u2_group1', 'u2_group2', 'u3_create', 'u3_jobs', 'u3_commit')
        self.sent = self.sent | {key}
        self.last_result = self.OPS[kind](self, f's{idx}_{kind}')
        return self.last_result

    def record(self, label, assertions):
        self.steps.append((label, assertions))


def solve_violation(sc, timeout_ms=120000, relaxed=False):
    """One query: is there an assignment (within the assumptions) violating some recorded assertion?
    Returns (result, model_values|None, which, seconds)."""
    s = z3.Solver()
    s.set('timeout', timeout_ms)
    inp = sc.inp
    db = sc.db
    for c in inp.constraints:
        s.add(c)
    for c in db.env_constraints:
        if is_sym(c):
            s.add(c)
    if getattr(sc, 'oob_is_violation', False):
        pass
    elif is_sym(db.oob):
        s.add(z3.Not(db.oob))
    elif db.oob is True:
        raise HarnessError('scenario writes outside the modelled key space unconditionally')
    bad = []
    for label, asserts in sc.steps:
        for a in asserts:
            name, e = a[0], (a[2] if relaxed and len(a) > 2 and a[2] is not None else a[1])
            if e is True:
                continue
            bad.append((f'{label}: {name}', z3.BoolVal(False) if e is False else e))
    if not bad:
        return 'unsat', None, None, 0.0   # every recorded assertion simplified to True
    s.add(z3.Or(*[z3.Not(e) for _, e in bad]))
    t = time.time()
    r = str(s.check())
    dt = time.time() - t
    if r != 'sat':
        return r, None, None, dt
    m = s.model()
    which = [n for n, e in bad if z3.is_false(m.eval(e, model_completion=True))]
    vals = {}
    for d in m.decls():
        v = m[d]
        if z3.is_int_value(v):
            vals[d.name()] = v.as_long()
        elif z3.is_true(v) or z3.is_false(v):
            vals[d.name()] = bool(z3.is_true(v))
    return r, vals, which, dt


def reachable(sc, timeout_ms=60000):
    """Vacuity guard: the assumptions of the scenario are satisfiable."""
    s = z3.Solver()
    s.set('timeout', timeout_ms)
    for c in sc.inp.constraints:
        s.add(c)
    for c in sc.db.env_constraints:
        if is_sym(c):
            s.add(c)
    if is_sym(sc.db.oob) and not getattr(sc, 'oob_is_violation', False):
        s.add(z3.Not(sc.db.oob))
    return str(s.check())


def clone(sc):
    """Independent copy of a scenario after its prefix (cheap: tables are copied, terms are shared)."""
    import copy
    new = copy.copy(sc)
    inp = Inputs(sc.inp.values)
    inp.constraints = list(sc.inp.constraints)
    inp.vars = dict(sc.inp.vars)
    new.inp = inp
    w = bo.World(sc.db.copy(), inp.constraints)
    w.constraints = inp.constraints
    w.db.env_constraints = list(sc.db.env_constraints)
    new.w = w
    new.steps = list(sc.steps)
    new.snapshots = list(sc.snapshots)
    new.outcomes = list(sc.outcomes)
    return new


def run_sequences(prefix_sc, seqs, step_asserts, workers=8, timeout_ms=120000):
    """Farm one query per op-kind sequence to forked workers (the prefix state is inherited, not rebuilt).
    step_asserts(sc) -> [(name, expr)] evaluated after each op.  Yields (seq, result, model, which, secs)."""
    import multiprocessing as mp
    global _SHARED
    _SHARED = (prefix_sc, step_asserts, timeout_ms)
    ctx = mp.get_context('fork')
    seqs = list(seqs)
    if os.environ.get('VERIF_SERIAL'):   # debugging aid: run the sequences in this process
        for q in seqs:
            yield _one_seq(q)
        return
    # a worker that dies (crash inside z3, out of memory, ...) makes a multiprocessing pool wait forever: bound the wait
    limit = 3 * timeout_ms / 1000 + 900
    with ctx.Pool(workers) as pool:
        it = pool.imap_unordered(_one_seq, seqs)
        for _ in range(len(seqs)):
            try:
                out = it.next(timeout=limit)
            except mp.TimeoutError:
                pool.terminate()
                raise HarnessError(f'a sequence worker did not answer within {int(limit)} s (lost or stuck worker)')
            yield out


_SHARED = None


def _one_seq(seq):
    prefix_sc, step_asserts, timeout_ms = _SHARED
    t = time.time()
    try:
        sc = clone(prefix_sc)
        for idx, kind in enumerate(seq):
            sc.apply(kind, idx)
            sc.record(f'after {idx}:{kind}', step_asserts(sc))
        rr = reachable(sc, 30000)
        if rr != 'sat':
            return (seq, 'unreachable' if rr == 'unsat' else 'unknown', None, None, time.time() - t)
        r, vals, which, dt = solve_violation(sc, timeout_ms)
        if r == 'sat' and any(len(a) > 2 and a[2] is not None for _, asserts in sc.steps for a in asserts):
            # a violation of the strict oracle: is there one outside every listed finding class?
            r2, vals2, which2, dt2 = solve_violation(sc, timeout_ms, relaxed=True)
            if r2 == 'sat':
                return (seq, 'sat-new', vals2, which2, time.time() - t)
            if r2 != 'unsat':
                return (seq, 'unknown', None, None, time.time() - t)
            return (seq, 'sat-known', vals, which, time.time() - t)
        return (seq, 'sat-new' if r == 'sat' else r, vals, which, time.time() - t)
    except HarnessError as e:
        if 'no feasible path' in str(e) and reachable(sc, 30000) == 'unsat':
            return (seq, 'unreachable', None, None, time.time() - t)
        return (seq, 'harness-error', None, [str(e)], time.time() - t)
    except Exception as e:
        import traceback
        return (seq, 'harness-error', None, [traceback.format_exc()[-1500:]], time.time() - t)
