"""Bounded model of the batch database: which tables/columns are modelled, over which key spaces.

Column names, nullability and defaults come from batch/sql/estimated-current.sql (documentation of the
migrated schema; used for structure only — routines come from the migrations).  Strings that act as
identifiers (user, billing project, instance name, attempt id, inst_coll, resource) are small integers.
"""
import os
import re

import z3

from ..common import REPO, HarnessError
from .interp import DB, GLOBAL_S, NULL, Interner, Table, V, is_sym

STATES = ['Pending', 'Ready', 'Creating', 'Running', 'Success', 'Failed', 'Error', 'Cancelled']
TERMINAL = ['Success', 'Failed', 'Error', 'Cancelled']
INST_STATES = ['pending', 'active', 'inactive', 'deleted']
BATCH_STATES = ['open', 'running', 'complete']
JG_STATES = ['running', 'complete']
REASONS = ['activation_timeout', 'cancelled', 'deactivated', 'error', 'preempted', 'failed', 'success', 'ended']


class Sizes:
    def __init__(self, J=3, G=2, U=2, I=2, A=2, T=2, IC=2, R=2, D=2):
        self.J, self.G, self.U, self.I, self.A, self.T, self.IC, self.R, self.D = J, G, U, I, A, T, IC, R, D

    def dom(self, name):
        return {
            'batch': [1], 'job': list(range(1, self.J + 1)), 'group': list(range(0, self.G)),
            'update': list(range(1, self.U + 1)), 'inst': [GLOBAL_S.code(f'inst{i}') for i in range(1, self.I + 1)],
            'attempt': [GLOBAL_S.code(f'att{i}') for i in range(1, self.A + 1)], 'token': list(range(0, self.T)),
            'ic': [GLOBAL_S.code(f'ic{i}') for i in range(1, self.IC + 1)], 'res': list(range(1, self.R + 1)),
            'user': [GLOBAL_S.code('user1')], 'bp': [GLOBAL_S.code('bp1')],
            'date': list(range(1, self.D + 1)), 'one': [1],
        }[name]

    def as_dict(self):
        return dict(J=self.J, G=self.G, U=self.U, I=self.I, A=self.A, T=self.T, IC=self.IC, R=self.R, D=self.D)


# table -> (key columns with domain names, modelled non-key columns, const columns {col: value})
SCHEMA = {
    'globals': ([], ['n_tokens', 'frozen'], {}),
    'inst_colls': ([('name', 'ic')], ['is_pool'], {}),
    'instances': ([('name', 'inst')], ['state', 'cores_mcpu', 'time_deactivated', 'inst_coll', 'token', 'time_activated',
                                       'activation_token', 'ip_address'], {}),
    'instances_free_cores_mcpu': ([('name', 'inst')], ['free_cores_mcpu'], {}),
    'user_inst_coll_resources': ([('user', 'user'), ('inst_coll', 'ic'), ('token', 'token')],
                                 ['n_ready_jobs', 'n_running_jobs', 'n_creating_jobs', 'ready_cores_mcpu',
                                  'running_cores_mcpu', 'n_cancelled_ready_jobs', 'n_cancelled_running_jobs',
                                  'n_cancelled_creating_jobs'], {}),
    'batches': ([('id', 'batch')], ['state', 'n_jobs', 'token', 'deleted', 'time_completed', 'format_version'], {'user': 'user1', 'billing_project': 'bp1'}),
    'job_groups': ([('batch_id', 'batch'), ('job_group_id', 'group')], ['update_id', 'state', 'n_jobs', 'time_completed'], {'user': 'user1'}),
    'job_group_self_and_ancestors': ([('batch_id', 'batch'), ('job_group_id', 'group'), ('ancestor_id', 'group')], ['level'], {}),
    'batch_updates': ([('batch_id', 'batch'), ('update_id', 'update')],
                      ['token', 'start_job_id', 'n_jobs', 'start_job_group_id', 'n_job_groups', 'committed', 'time_committed'], {}),
    'job_groups_n_jobs_in_complete_states': ([('id', 'batch'), ('job_group_id', 'group')],
                                             ['n_completed', 'n_succeeded', 'n_failed', 'n_cancelled'], {}),
    'job_groups_cancelled': ([('id', 'batch'), ('job_group_id', 'group')], [], {}),
    'job_groups_inst_coll_staging': ([('batch_id', 'batch'), ('update_id', 'update'), ('job_group_id', 'group'),
                                      ('inst_coll', 'ic'), ('token', 'token')], ['n_jobs', 'n_ready_jobs', 'ready_cores_mcpu'], {}),
    'job_group_inst_coll_cancellable_resources': ([('batch_id', 'batch'), ('update_id', 'update'), ('job_group_id', 'group'),
                                                   ('inst_coll', 'ic'), ('token', 'token')],
                                                  ['n_ready_cancellable_jobs', 'ready_cancellable_cores_mcpu',
                                                   'n_creating_cancellable_jobs', 'n_running_cancellable_jobs',
                                                   'running_cancellable_cores_mcpu'], {}),
    'jobs': ([('batch_id', 'batch'), ('job_id', 'job')],
             ['update_id', 'state', 'always_run', 'cores_mcpu', 'n_pending_parents', 'cancelled', 'attempt_id', 'inst_coll',
              'job_group_id'], {}),
    'jobs_telemetry': ([('batch_id', 'batch'), ('job_id', 'job')], [], {}),
    'attempts': ([('batch_id', 'batch'), ('job_id', 'job'), ('attempt_id', 'attempt')],
                 ['instance_name', 'start_time', 'rollup_time', 'end_time', 'reason'], {}),
    'job_parents': ([('batch_id', 'batch'), ('job_id', 'job'), ('parent_id', 'job')], [], {}),
    'attempt_resources': ([('batch_id', 'batch'), ('job_id', 'job'), ('attempt_id', 'attempt'), ('resource_id', 'res')],
                          ['quantity', 'deduped_resource_id'], {}),
    'aggregated_billing_project_user_resources_v3': ([('billing_project', 'bp'), ('user', 'user'), ('resource_id', 'res'),
                                                      ('token', 'token')], ['usage'], {}),
    'aggregated_billing_project_user_resources_by_date_v3': ([('billing_date', 'date'), ('billing_project', 'bp'),
                                                              ('user', 'user'), ('resource_id', 'res'), ('token', 'token')],
                                                             ['usage'], {}),
    'aggregated_job_group_resources_v3': ([('batch_id', 'batch'), ('job_group_id', 'group'), ('resource_id', 'res'),
                                           ('token', 'token')], ['usage'], {}),
    'aggregated_job_resources_v3': ([('batch_id', 'batch'), ('job_id', 'job'), ('resource_id', 'res')], ['usage'], {}),
    'batch_bunches': ([('batch_id', 'batch'), ('start_job_id', 'job')], ['token'], {}),
    'billing_project_users': ([('billing_project', 'bp'), ('user', 'user')], [], {}),
}

ENUM_COLS = {
    ('jobs', 'state'): STATES, ('instances', 'state'): INST_STATES, ('batches', 'state'): BATCH_STATES,
    ('job_groups', 'state'): JG_STATES, ('attempts', 'reason'): REASONS,
}
BOOL_COLS = {('jobs', 'always_run'), ('jobs', 'cancelled'), ('batch_updates', 'committed'), ('inst_colls', 'is_pool'),
             ('batches', 'deleted')}

# columns added by migrations newer than the documentation file (estimated-current.sql is stale for them)
EXTRA_COLS = {'jobs': ['n_max_attempts']}

_doc = {}


def doc_schema():
    """(columns, notnull, defaults) per table from estimated-current.sql."""
    if _doc:
        return _doc
    text = open(os.path.join(REPO, 'batch', 'sql', 'estimated-current.sql'), encoding='utf-8').read()
    for m in re.finditer(r'CREATE TABLE (?:IF NOT EXISTS )?`(\w+)` \((.*?)\n\) ENGINE', text, re.S):
        cols, notnull, defaults = [], set(), {}
        for line in m.group(2).split('\n'):
            lm = re.match(r'\s+`(\w+)` ([A-Za-z]+(?:\([^)]*\))?)(.*)', line)
            if not lm:
                continue
            c, rest = lm.group(1), lm.group(3)
            cols.append(c)
            if 'NOT NULL' in rest or 'AUTO_INCREMENT' in rest:
                notnull.add(c)
            d = re.search(r'DEFAULT\s+(\S+?)[,\s]*(?:#.*)?$', rest)
            if d:
                tok = d.group(1).rstrip(',')
                if tok.upper() == 'NULL':
                    defaults[c] = None
                elif tok.upper() in ('FALSE', 'TRUE'):
                    defaults[c] = 1 if tok.upper() == 'TRUE' else 0
                elif re.fullmatch(r'-?\d+', tok):
                    defaults[c] = int(tok)
        pk = re.search(r'PRIMARY KEY \(([^)]*)\)', m.group(2))
        cols += EXTRA_COLS.get(m.group(1), [])
        _doc[m.group(1)] = {'cols': cols, 'notnull': notnull, 'defaults': defaults,
                            'pk': [x.strip(' `') for x in pk.group(1).split(',')] if pk else []}
    if 'jobs' not in _doc:
        raise HarnessError('estimated-current.sql: table definitions not found')
    return _doc


def make_db(sizes, interner=None):
    doc = doc_schema()
    S = interner or GLOBAL_S
    for lst in (STATES, INST_STATES, BATCH_STATES, JG_STATES, REASONS):
        for s in lst:
            S.code(s)
    tables = []
    allcols = {t: d['cols'] for t, d in doc.items()}
    for name, (keys, cols, consts) in SCHEMA.items():
        if name not in doc:
            raise HarnessError(f'table {name} not in estimated-current.sql')
        d = doc[name]
        for c in [k for k, _ in keys] + cols + list(consts):
            if c not in d['cols']:
                raise HarnessError(f'{name}.{c} is modelled but is not a column of the table')
        ignored = [c for c in d['cols'] if c not in cols and c not in consts and c not in [k for k, _ in keys]]
        t = Table(name, [k for k, _ in keys], [sizes.dom(dn) for _, dn in keys], cols + list(consts), ignored)
        consts = {c: (S.code(v) if isinstance(v, str) else v) for c, v in consts.items()}
        t.consts = dict(consts)
        t.notnull = {c for c in cols if c in d['notnull']} | set(consts)
        t.defaults = {}
        for c in cols:
            if c in d['defaults']:
                t.defaults[c] = NULL if d['defaults'][c] is None else V(d['defaults'][c])
        for c, v in consts.items():
            t.defaults[c] = V(v)
        for r in t.rows.values():
            for c, v in consts.items():
                r.vals[c] = V(v)
        tables.append(t)
    db = DB(tables, allcols, S)
    db.sizes = sizes
    return db


def empty_db(sizes, n_tokens=None):
    """Freshly migrated database: globals row, inst_colls; nothing else."""
    db = make_db(sizes)
    g = db.t['globals'].rows[()]
    g.present = True
    g.vals['n_tokens'] = V(sizes.T if n_tokens is None else n_tokens)
    g.vals['frozen'] = V(0)
    return db


def symbolic_db(sizes, prefix='s'):
    """Every cell symbolic.  Returns (db, well_typed) where well_typed constrains enum/bool domains and
    NOT NULL columns; structural invariants are the caller's."""
    db = make_db(sizes)
    cons = []
    for t in db.t.values():
        for key, r in t.rows.items():
            kn = '_'.join(str(k) for k in key)
            base = f'{prefix}.{t.name}[{kn}]'
            r.present = z3.Bool(base + '.present')
            for c in t.cols:
                if c in t.consts:
                    continue
                v = z3.Int(base + '.' + c)
                n = False if c in t.notnull else z3.Bool(base + '.' + c + '.null')
                r.vals[c] = V(v, n)
                if (t.name, c) in ENUM_COLS:
                    cons.append(z3.Or(*[v == db.S.code(s) for s in ENUM_COLS[(t.name, c)]]))
                elif (t.name, c) in BOOL_COLS:
                    cons.append(z3.Or(v == 0, v == 1))
    g = db.t['globals'].rows[()]
    g.present = True
    g.vals['n_tokens'] = V(sizes.T)
    g.vals['frozen'] = V(0)
    return db, cons


def code(db, s):
    return db.S.code(s)


def evalv(model, x):
    if is_sym(x):
        r = model.eval(x, model_completion=True)
        if z3.is_int_value(r):
            return r.as_long()
        if z3.is_true(r):
            return True
        if z3.is_false(r):
            return False
        raise HarnessError(f'cannot evaluate {x} in model: {r}')
    return x


def concretize(db, model):
    """Concrete copy of a symbolic db under a z3 model."""
    out = db.copy()
    out.env_constraints = []
    out.err = {}
    out.oob = False
    for t in out.t.values():
        for r in t.rows.values():
            r.present = bool(evalv(model, r.present))
            for c in t.cols:
                v = r.vals[c]
                r.vals[c] = V(evalv(model, v.v), bool(evalv(model, v.n)))
    return out


def dump(db, tables=None, model=None):
    """Readable dict of the present rows (concrete db, or symbolic db + model)."""
    out = {}
    for name, t in db.t.items():
        if tables and name not in tables:
            continue
        rows = []
        for key, r in t.rows.items():
            p = evalv(model, r.present) if model is not None else r.present
            if p is not True:
                if p is False:
                    continue
            d = dict(zip(t.keycols, key))
            for c in t.cols:
                if c in getattr(t, 'consts', {}):
                    continue
                v = r.vals[c]
                vv = evalv(model, v.v) if model is not None else v.v
                nn = evalv(model, v.n) if model is not None else v.n
                d[c] = None if nn is True else (db.S.name(vv) if isinstance(vv, int) else vv)
            d = {k: (db.S.name(v) if isinstance(v, int) else v) for k, v in d.items()}
            rows.append(d)
        if rows:
            out[name] = rows
    return out


def cell_equal(a, b):
    """z3/Python condition: SQL values equal (NULL = NULL)."""
    from .interp import b_and, b_not, b_or, i_eq
    return b_or(b_and(a.n, b.n), b_and(b_not(a.n), b_not(b.n), i_eq(a.v, b.v)))
