"""irsem: reader and z3-valued evaluator for the Hail IR *text* (the S-expressions the Python front end sends).

Independent of hail.ir: it only looks at text.  The per-node argument layout follows the Scala IRParser
(hail/hail/src/is/hail/expr/ir/Parser.scala: `case "<Node>" =>` clauses) for the node kinds listed in GRAMMAR.

Values (all total, no missingness, no errors unless `strict` nodes are used):
  int32/int64  z3 BitVec(32/64)        ('i', bv)
  bool         z3 Bool                 ('b', e)
  array/stream list of guarded elems   ('a', [(guard, value), ...])   guard False = element absent
  struct       ordered dict            ('t', {field: value})
Errors (only ArrayRef out of bounds) are tracked as a z3 Bool `err` accumulated in the evaluator state
with the guards under which the erroring node is actually evaluated.

Aggregation context: `aggctx` is None (no aggregation in scope) or a list of (guard, rowenv): the rows the
enclosing StreamAgg/AggFilter/AggLet nest aggregates over, each with its own *agg-scope* environment.
Scan context likewise, evaluated per prefix (StreamAggScan).
"""
import re

import z3


class IRTextError(Exception):
    """The text is not an IR the engine's parser would accept (malformed / unknown node / arity)."""


class ScopeError(Exception):
    """A Ref names a variable that is not bound in the scope (eval / agg / scan) it is evaluated in."""


_TOK = re.compile(r'\(|\)|"(?:[^"\\]|\\.)*"|`(?:[^`\\]|\\.)*`|[^\s()]+')


def read(text):
    """S-expression reader: returns nested lists of atoms (str).  Exactly one top-level form."""
    toks = _TOK.findall(text)
    pos = 0
    stack = [[]]
    for t in toks:
        if t == '(':
            stack.append([])
        elif t == ')':
            if len(stack) < 2:
                raise IRTextError('unbalanced )')
            x = stack.pop()
            stack[-1].append(x)
        else:
            stack[-1].append(t)
        pos += 1
    if len(stack) != 1:
        raise IRTextError('unbalanced (')
    if len(stack[0]) != 1 or not isinstance(stack[0][0], list):
        raise IRTextError(f'expected one top-level form, got {len(stack[0])}')
    return stack[0][0]


# node -> (number of head atoms, number of IR children or None for variadic); special layouts handled in code
GRAMMAR = {
    'I32': (1, 0), 'I64': (1, 0), 'True': (0, 0), 'False': (0, 0), 'Ref': (1, 0),
    'ApplyBinaryPrimOp': (1, 2), 'ApplyComparisonOp': (1, 2), 'If': (0, 3),
    'AggLet': (2, 2), 'GetField': (1, 1), 'MakeArray': (1, None), 'ToStream': (1, 1), 'ToArray': (0, 1),
    'StreamMap': (1, 2), 'StreamFilter': (1, 2), 'StreamFold': (2, 3), 'ArrayLen': (0, 1), 'ArrayRef': (1, 2),
    'AggFilter': (1, 2), 'StreamAgg': (1, 2), 'StreamAggScan': (1, 2), 'Cast': (1, 1),
    'AggGroupBy': (1, 2), 'AggExplode': (2, 2), 'AggArrayPerElement': (4, 2), 'Apply': None,
    # special: Let (eval|agg|scan name)+ value+ body ; MakeStruct (name ir)* ; ApplyAggOp op (init*) (seq*)
    'Let': None, 'MakeStruct': None, 'ApplyAggOp': None, 'ApplyScanOp': None,
}


def unescape_id(s):
    if s.startswith('`') and s.endswith('`'):
        return s[1:-1].replace('\\`', '`')
    return s


def _bool_lit(s):
    if s == 'True':
        return True
    if s == 'False':
        return False
    raise IRTextError(f'boolean literal expected, got {s}')


def inline_cse(t, prefix='__cse_'):
    """Syntactic helper: substitute every `Let eval|AggLet <prefix>k` binding into its body (text level).
    Returns the tree with the CSE lets removed.  Used only for the syntactic cross-check."""
    def go(t, sub):
        if not isinstance(t, list):
            return t
        if t and t[0] == 'Ref' and len(t) == 2 and t[1] in sub:
            return sub[t[1]]
        if t and t[0] == 'Let' and len(t) == 5 and isinstance(t[2], str) and t[2].startswith(prefix):
            v = go(t[3], sub)
            s2 = dict(sub)
            s2[t[2]] = v
            return go(t[4], s2)
        if t and t[0] == 'AggLet' and len(t) == 5 and isinstance(t[1], str) and t[1].startswith(prefix):
            v = go(t[3], sub)
            s2 = dict(sub)
            s2[t[1]] = v
            return go(t[4], s2)
        return [go(c, sub) for c in t]
    return go(t, {})


class Evaluator:
    """z3-valued big-step evaluator.  `leaves`: name -> value for the free variables of the root."""

    def __init__(self):
        self.err = z3.BoolVal(False)     # some evaluated node raised an error (ArrayRef out of bounds)
        self.nodes = 0

    # ---- helpers -----------------------------------------------------------------------------
    @staticmethod
    def ite(c, a, b):
        ka, kb = a[0], b[0]
        if ka != kb:
            raise IRTextError(f'ill-typed If: {ka} vs {kb}')
        if ka in ('i', 'b'):
            return (ka, z3.If(c, a[1], b[1]))
        if ka == 't':
            if list(a[1]) != list(b[1]):
                raise IRTextError('ill-typed If on structs')
            return ('t', {k: Evaluator.ite(c, a[1][k], b[1][k]) for k in a[1]})
        if ka == 'd':
            return ('d', [(z3.And(c, g), k_, v) for g, k_, v in a[1]] + [(z3.And(z3.Not(c), g), k_, v) for g, k_, v in b[1]])
        # arrays: concatenate guarded views (order within each side is kept; the sides are exclusive)
        return ('a', [(z3.And(c, g), v) for g, v in a[1]] + [(z3.And(z3.Not(c), g), v) for g, v in b[1]])

    def ev(self, t, env, agg=None, scan=None, live=True):
        """`live`: z3 Bool/True under which this node is really evaluated (for the error flag)."""
        self.nodes += 1
        if not isinstance(t, list) or not t or not isinstance(t[0], str):
            raise IRTextError(f'IR node expected: {t!r}')
        k = t[0]
        if k not in GRAMMAR:
            raise IRTextError(f'unknown IR node {k}')
        a = t[1:]
        g = GRAMMAR[k]
        if g is not None:
            nh, nc = g
            if len(a) < nh or any(isinstance(x, list) for x in a[:nh]):
                raise IRTextError(f'{k}: bad head {a[:nh]!r}')
            if nc is not None and len(a) != nh + nc:
                raise IRTextError(f'{k}: expected {nc} children, got {len(a) - nh}')
        E = lambda x, env=env, agg=agg, scan=scan, live=live: self.ev(x, env, agg, scan, live)  # noqa: E731
        if k == 'I32':
            return ('i', z3.BitVecVal(int(a[0]), 32))
        if k == 'I64':
            return ('i', z3.BitVecVal(int(a[0]), 64))
        if k in ('True', 'False'):
            return ('b', z3.BoolVal(k == 'True'))
        if k == 'Ref':
            n = unescape_id(a[0])
            if env is None or n not in env:
                raise ScopeError(n)
            return env[n]
        if k == 'Apply':
            # (Apply errorID name (typeArgs) returnType args...): only the integer conversions are modelled
            if len(a) != 5 or a[1] not in ('toInt64', 'toInt32') or a[2] != []:
                raise IRTextError(f'Apply {a[1] if len(a) > 1 else "?"} is not modelled')
            v = E(a[4])
            w = {'Int32': 32, 'Int64': 64}.get(a[3])
            if v[0] != 'i' or w != {'toInt32': 32, 'toInt64': 64}[a[1]]:
                raise IRTextError('ill-typed integer conversion')
            sz = v[1].size()
            return ('i', v[1] if sz == w else (z3.SignExt(w - sz, v[1]) if w > sz else z3.Extract(w - 1, 0, v[1])))
        if k == 'Cast':
            v = E(a[1])
            w = {'Int32': 32, 'Int64': 64}.get(a[0])
            if v[0] != 'i' or w is None:
                raise IRTextError('Cast: only int32/int64 are modelled')
            sz = v[1].size()
            return ('i', v[1] if sz == w else (z3.SignExt(w - sz, v[1]) if w > sz else z3.Extract(w - 1, 0, v[1])))
        if k == 'ApplyBinaryPrimOp':
            l, r = E(a[1]), E(a[2])
            if l[0] != 'i' or r[0] != 'i' or l[1].size() != r[1].size():
                raise IRTextError('ill-typed ApplyBinaryPrimOp')
            op = {'Add': lambda x, y: x + y, 'Subtract': lambda x, y: x - y, 'Multiply': lambda x, y: x * y,
                  '+': lambda x, y: x + y, '-': lambda x, y: x - y, '*': lambda x, y: x * y}.get(unescape_id(a[0]))
            if op is None:
                raise IRTextError(f'unsupported binary op {a[0]}')
            return ('i', op(l[1], r[1]))
        if k == 'ApplyComparisonOp':
            l, r = E(a[1]), E(a[2])
            if l[0] != 'i' or r[0] != 'i':
                raise IRTextError('ill-typed ApplyComparisonOp')
            op = {'LT': lambda x, y: x < y, 'LTEQ': lambda x, y: x <= y, 'GT': lambda x, y: x > y,
                  'GTEQ': lambda x, y: x >= y, 'EQ': lambda x, y: x == y, 'NEQ': lambda x, y: x != y,
                  '<': lambda x, y: x < y, '<=': lambda x, y: x <= y, '>': lambda x, y: x > y,
                  '>=': lambda x, y: x >= y}.get(unescape_id(a[0]))
            if op is None:
                raise IRTextError(f'unsupported comparison {a[0]}')
            return ('b', op(l[1], r[1]))
        if k == 'If':
            c = E(a[0])
            if c[0] != 'b':
                raise IRTextError('If condition is not bool')
            x = self.ev(a[1], env, agg, scan, _and(live, c[1]))
            y = self.ev(a[2], env, agg, scan, _and(live, z3.Not(c[1])))
            return self.ite(c[1], x, y)
        if k == 'Let':
            i = 0
            binds = []
            while i + 1 < len(a) and isinstance(a[i], str):
                binds.append((a[i], unescape_id(a[i + 1])))
                i += 2
            rest = a[i:]
            if not binds or len(rest) != len(binds) + 1:
                raise IRTextError('Let: bad layout')
            for (scope, name), vt_ in zip(binds, rest):
                if scope == 'eval':
                    env = _bind(env, name, self.ev(vt_, env, agg, scan, live))
                elif scope == 'agg':
                    agg = self._agg_bind(agg, name, vt_, live, 'agg')
                elif scope == 'scan':
                    scan = self._agg_bind(scan, name, vt_, live, 'scan')
                else:
                    raise IRTextError(f'Let: bad scope {scope}')
            return self.ev(rest[-1], env, agg, scan, live)
        if k == 'AggLet':
            name = unescape_id(a[0])
            if _bool_lit(a[1]):
                scan = self._agg_bind(scan, name, a[2], live, 'scan')
            else:
                agg = self._agg_bind(agg, name, a[2], live, 'agg')
            return self.ev(a[3], env, agg, scan, live)
        if k == 'MakeStruct':
            d = {}
            for f in a:
                if not (isinstance(f, list) and len(f) == 2 and isinstance(f[0], str)):
                    raise IRTextError('MakeStruct: bad field')
                d[unescape_id(f[0])] = E(f[1])
            return ('t', d)
        if k == 'GetField':
            s = E(a[1])
            n = unescape_id(a[0])
            if s[0] != 't' or n not in s[1]:
                raise IRTextError(f'GetField {n}: no such field')
            return s[1][n]
        if k == 'MakeArray':
            return ('a', [(z3.BoolVal(True), E(x)) for x in a[1:]])
        if k == 'ToStream':
            _bool_lit(a[0])
            return self._arr(E(a[1]))
        if k == 'ToArray':
            return self._arr(E(a[0]))
        if k == 'ArrayLen':
            s = self._arr(E(a[0]))
            n = z3.BitVecVal(0, 32)
            for gd, _ in s[1]:
                n = n + z3.If(gd, z3.BitVecVal(1, 32), z3.BitVecVal(0, 32))
            return ('i', n)
        if k == 'ArrayRef':
            int(a[0])
            s, i = self._arr(E(a[1])), E(a[2])
            n, elems = compact(s[1])
            if not elems:
                self.err = z3.Or(self.err, live)
                return ('i', z3.BitVecVal(0, 32))
            oob = z3.Or(i[1] < 0, i[1] >= n)
            self.err = z3.Or(self.err, _and(live, oob))
            r = elems[-1]
            for j in range(len(elems) - 2, -1, -1):
                r = self.ite(i[1] == j, elems[j], r)
            return r
        if k in ('StreamMap', 'StreamFilter'):
            name = unescape_id(a[0])
            s = self._arr(E(a[1]))
            out = []
            for gd, v in s[1]:
                r = self.ev(a[2], _bind(env, name, v), agg, scan, _and(live, gd))
                if k == 'StreamMap':
                    out.append((gd, r))
                else:
                    if r[0] != 'b':
                        raise IRTextError('StreamFilter body is not bool')
                    out.append((z3.And(gd, r[1]), v))
            return ('a', out)
        if k == 'StreamFold':
            acc_n, val_n = unescape_id(a[0]), unescape_id(a[1])
            s = self._arr(E(a[2]))
            acc = E(a[3])
            for gd, v in s[1]:
                r = self.ev(a[4], _bind(_bind(env, acc_n, acc), val_n, v), agg, scan, _and(live, gd))
                acc = self.ite(gd, r, acc)
            return acc
        if k in ('ApplyAggOp', 'ApplyScanOp'):
            if len(a) != 3 or not isinstance(a[0], str) or not isinstance(a[1], list) or not isinstance(a[2], list):
                raise IRTextError(f'{k}: bad layout')
            rows = agg if k == 'ApplyAggOp' else scan
            if rows is None:
                raise ScopeError(f'<{k} outside an aggregation/scan context>')
            if a[0] == 'Count' and not a[1] and not a[2]:
                tot = z3.BitVecVal(0, 64)
                for gd, _ in rows:
                    tot = tot + z3.If(gd, z3.BitVecVal(1, 64), z3.BitVecVal(0, 64))
                return ('i', tot)
            if a[0] != 'Sum' or a[1] or len(a[2]) != 1:
                raise IRTextError(f'{k}: only Sum () (x) and Count () () are modelled')
            tot = None
            for gd, renv in rows:
                v = self.ev(a[2][0], renv, None, None, _and(live, gd))
                if v[0] != 'i':
                    raise IRTextError('Sum of non-int')
                z = z3.BitVecVal(0, v[1].size())
                tot = z3.If(gd, v[1], z) if tot is None else tot + z3.If(gd, v[1], z)
            if tot is None:
                # no candidate rows (first element of a scan): still evaluate the argument once for scoping/sort
                tot = z3.BitVecVal(0, 64)
            return ('i', tot)
        if k == 'AggGroupBy':
            # (AggGroupBy isScan key agg): key per row in the agg/scan scope; value = agg over the rows of that key
            is_scan = _bool_lit(a[0])
            rows = scan if is_scan else agg
            if rows is None:
                raise ScopeError('<AggGroupBy outside an aggregation/scan context>')
            keys = [self.ev(a[1], renv, None, None, _and(live, gd)) for gd, renv in rows]
            if any(kv[0] not in ('i', 'b') for kv in keys):
                raise IRTextError('AggGroupBy: only int / bool keys are modelled')
            entries = []
            for i, (gd, _) in enumerate(rows):
                grp = [(z3.And(gj, keys[j][1] == keys[i][1]), rj) for j, (gj, rj) in enumerate(rows)]
                val = self.ev(a[2], env, agg if is_scan else grp, grp if is_scan else scan, _and(live, gd))
                entries.append((gd, keys[i], val))
            if not rows:
                self.ev(a[2], env, agg if is_scan else [], [] if is_scan else scan, False)   # scoping only
            return ('d', entries)
        if k == 'AggExplode':
            # (AggExplode name isScan stream aggBody): one row per element, `name` bound in the agg/scan scope
            name, is_scan = unescape_id(a[0]), _bool_lit(a[1])
            rows = scan if is_scan else agg
            if rows is None:
                raise ScopeError('<AggExplode outside an aggregation/scan context>')
            new = []
            for gd, renv in rows:
                arr = self._arr(self.ev(a[2], renv, None, None, _and(live, gd)))
                for ge, ve in arr[1]:
                    new.append((z3.And(gd, ge), _bind(renv, name, ve)))
            return self.ev(a[3], env, agg if is_scan else new, new if is_scan else scan, live)
        if k == 'AggArrayPerElement':
            # (AggArrayPerElement elt idx isScan hasKnownLength array aggBody): arrays of one static length only
            elt, idx, is_scan = unescape_id(a[0]), unescape_id(a[1]), _bool_lit(a[2])
            if _bool_lit(a[3]):
                raise IRTextError('AggArrayPerElement with known length is not modelled')
            rows = scan if is_scan else agg
            if rows is None:
                raise ScopeError('<AggArrayPerElement outside an aggregation/scan context>')
            arrs = [self._arr(self.ev(a[4], renv, None, None, _and(live, gd)))[1] for gd, renv in rows]
            if any(len(x) != len(arrs[0]) or any(not z3.is_true(z3.simplify(g_)) for g_, _ in x) for x in arrs):
                raise IRTextError('AggArrayPerElement: only arrays of one static length are modelled')
            out = []
            for i in range(len(arrs[0]) if arrs else 0):
                new = [(gd, _bind(renv, elt, arrs[r][i][1])) for r, (gd, renv) in enumerate(rows)]
                out.append((z3.BoolVal(True), self.ev(a[5], _bind(env, idx, ('i', z3.BitVecVal(i, 32))),
                                                      agg if is_scan else new, new if is_scan else scan, live)))
            if not arrs:
                self.ev(a[5], _bind(env, idx, ('i', z3.BitVecVal(0, 32))), agg if is_scan else [], [] if is_scan else scan,
                        False)
            return ('a', out)
        if k == 'AggFilter':
            is_scan = _bool_lit(a[0])
            rows = scan if is_scan else agg
            if rows is None:
                raise ScopeError('<AggFilter outside an aggregation/scan context>')
            new = []
            for gd, renv in rows:
                c = self.ev(a[1], renv, None, None, _and(live, gd))
                if c[0] != 'b':
                    raise IRTextError('AggFilter cond is not bool')
                new.append((z3.And(gd, c[1]), renv))
            return self.ev(a[2], env, agg if is_scan else new, new if is_scan else scan, live)
        if k == 'StreamAgg':
            # body: eval scope unchanged, agg scope := eval scope + element, scan scope dropped
            name = unescape_id(a[0])
            s = self._arr(E(a[1]))
            rows = [(gd, _bind(env, name, v)) for gd, v in s[1]]
            return self.ev(a[2], env, rows, None, live)
        if k == 'StreamAggScan':
            name = unescape_id(a[0])
            s = self._arr(E(a[1]))
            out = []
            prefix = []
            for gd, v in s[1]:
                # body: eval scope + element, scan scope := rows strictly before this one, agg scope dropped
                r = self.ev(a[2], _bind(env, name, v), None, list(prefix), _and(live, gd))
                out.append((gd, r))
                prefix.append((gd, _bind(env, name, v)))
            return ('a', out)
        raise IRTextError(f'no semantics for {k}')

    def _agg_bind(self, rows, name, vt_, live, what):
        if rows is None:
            raise ScopeError(f'<{what} binding {name} outside an aggregation/scan context>')
        return [(gd, _bind(renv, name, self.ev(vt_, renv, None, None, _and(live, gd)))) for gd, renv in rows]

    @staticmethod
    def _arr(v):
        if v[0] != 'a':
            raise IRTextError('array/stream expected')
        return v


def _and(a, b):
    if a is True:
        return b
    return z3.And(a, b)


def _bind(env, name, v):
    e = dict(env) if env else {}
    e[name] = v
    return e


def compact(elems):
    """[(guard, value)] -> (length as BV32, [value at position j]) (positions beyond length are arbitrary)."""
    n = z3.BitVecVal(0, 32)
    before = []
    for gd, _ in elems:
        before.append(n)
        n = n + z3.If(gd, z3.BitVecVal(1, 32), z3.BitVecVal(0, 32))
    out = []
    for j in range(len(elems)):
        r = None
        for i in range(len(elems) - 1, -1, -1):
            gd, v = elems[i]
            r = v if r is None else Evaluator.ite(z3.And(gd, before[i] == j), v, r)
        out.append(r)
    return n, out


def equal(a, b):
    """z3 Bool: the two values are the same Hail value."""
    if a[0] != b[0]:
        return z3.BoolVal(False)
    if a[0] == 'i':
        if a[1].size() != b[1].size():
            return z3.BoolVal(False)
        return a[1] == b[1]
    if a[0] == 'b':
        return a[1] == b[1]
    if a[0] == 't':
        if list(a[1]) != list(b[1]):
            return z3.BoolVal(False)
        return z3.And([z3.BoolVal(True)] + [equal(a[1][k], b[1][k]) for k in a[1]])
    if a[0] == 'd':
        # dicts as sets of present (key, value) entries (an entry may be listed more than once)
        def covered(x, y):
            return z3.And([z3.BoolVal(True)] + [
                z3.Implies(g, z3.Or([z3.BoolVal(False)] + [z3.And(g2, equal(k_, k2), equal(v, v2)) for g2, k2, v2 in y[1]]))
                for g, k_, v in x[1]])
        return z3.And(covered(a, b), covered(b, a))
    na, ea = compact(a[1])
    nb, eb = compact(b[1])
    cs = [na == nb]
    for j in range(max(len(ea), len(eb))):
        if j < len(ea) and j < len(eb):
            cs.append(z3.Implies(z3.UGT(na, j), equal(ea[j], eb[j])))
        elif j < len(ea):
            cs.append(z3.ULE(na, j))
        else:
            cs.append(z3.ULE(nb, j))
    return z3.And(cs)


def concretize(v, model):
    """Value under a z3 model, as plain Python data (for replay files / messages)."""
    def bv(e):
        r = model.eval(e, model_completion=True)
        x = r.as_long()
        w = r.size()
        return x - (1 << w) if x >= 1 << (w - 1) else x
    if v[0] == 'i':
        return bv(v[1])
    if v[0] == 'b':
        return z3.is_true(model.eval(v[1], model_completion=True))
    if v[0] == 't':
        return {k: concretize(x, model) for k, x in v[1].items()}
    if v[0] == 'd':
        return {concretize(k_, model): concretize(x, model) for gd, k_, x in v[1]
                if z3.is_true(model.eval(gd, model_completion=True))}
    return [concretize(x, model) for gd, x in v[1] if z3.is_true(model.eval(gd, model_completion=True))]
