#!/bin/sh
# Build the overlay venv /verif/.venv (python 3.12 from /venv + solver tooling from the offline wheelhouse).
# Idempotent; every check calls it through ./check when .venv is missing.
set -e
cd "$(dirname "$0")"
if [ -x .venv/bin/python ] && .venv/bin/python -c 'import z3, crosshair, cvc5, numpy' 2>/dev/null; then
  exit 0
fi
rm -rf .venv
/venv/bin/python -m venv .venv
SP=$(.venv/bin/python -c 'import sysconfig; print(sysconfig.get_paths()["purelib"])')
printf "import site; site.addsitedir('/venv/lib/python3.12/site-packages')\n" > "$SP/zz_venv_overlay.pth"
PIP_NO_INDEX=1 .venv/bin/pip install -q --no-index --find-links /opt/veriftools/wheels crosshair-tool z3-solver cvc5 numpy lark sortedcontainers jsonschema >/dev/null
.venv/bin/python -c 'import z3, crosshair, cvc5, numpy; print("venv ok", z3.get_version_string())'
